#!/bin/sh
# usage: seedtest_wt.sh <worktree-id under /tmp/mut> <property-id> [tier]
# Runs a check against a scratch worktree that has a seeded change applied (VERIF_REPO), without touching /repo and
# without writing evidence; several of these can run side by side. Output: /tmp/mut/<id>.check.log, one summary line.
ID=$1; P=$2; T=${3:-quick}
cd /verif && VERIF_REPO=/tmp/mut/$ID VERIF_NO_EVIDENCE=1 ./vcheck $P --tier $T > /tmp/mut/$ID.check.log 2>&1; rc=$?
n=$(grep -c "^VIOLATION" /tmp/mut/$ID.check.log)
echo "$ID $P exit=$rc violations=$n $(grep "sig:" /tmp/mut/$ID.check.log | sed 's/^ *sig: *//' | sort -u | head -4 | tr '\n' ' ')"
