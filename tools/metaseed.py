#!/usr/bin/env python3
# usage: metaseed.py <seed-id> <check> "<signatures / note>" [extra what_i_ran]
import json, sys
sid, chk, note = sys.argv[1:4]
p = "/verif/seeded/%s/meta.json" % sid
m = json.load(open(p))
m["breaks_property"] = sid.split("-")[0]
m["seed_id"] = sid
m["confirmed_by_me"] = {"how": "tools/confirm_seed.sh in a scratch worktree of /repo HEAD: baseline go test ./pkg/... with the change (only the pre-existing cupcake/rdb failure; pipe/backlog packages re-run sequentially because their tests share files under /tmp), demo FAILS with the change, passes with it reverted (git apply -R)", "result": "confirmed", "log": "confirm.log"}
m["what_i_ran"] = "tools/seedtest.sh %s %s" % (sid, chk) + (("; " + sys.argv[4]) if len(sys.argv) > 4 else "")
m["detected_by"] = {"check": chk, "tier": "quick", "signatures": note}
json.dump(m, open(p, "w"), indent=1)
