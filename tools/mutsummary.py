#!/usr/bin/env python3
"""Writes /verif/mutation/SUMMARY.md from results.jsonl plus the hand-made triage below.

Dispositions of survivors:
  E  equivalent with respect to the property (same observable behaviour for every input of the statement)
  O  outside the statement (metrics, progress output, log-only branches, status strings)
  N  killed by a neighbouring property's check (the line serves two properties)
  S  led to a strengthened check (described in DESIGN.md), now killed
  G  a real gap that was left open, with the reason
"""
import json, collections

TRIAGE = [
    # (file suffix, line, substring of the mutated line, disposition, note)
    ("rdb/reader.go", 187, "", "E", "the 16 MiB chunk threshold only decides where a hash is cut; every cut is checked, the position is not part of the statement"),
    ("common/utils.go", 381, "101", "E", "pipeline batch size"),
    ("common/utils.go", 814, "", "E", "threshold comparison at a size no generated payload hits exactly; both sides restore the same value"),
    ("common/common.go", 197, "", "E", "version comparison loop bound: extra iteration compares equal components"),
    ("syncUtils.go", 53, "", "O", "log sampling condition"),
    ("syncUtils.go", 54, "", "O", "log sampling condition"),
    ("syncIncrease.go", 231, "", "O", "metric counter"),
    ("syncIncrease.go", 240, "", "O", "metric counter"),
    ("syncIncrease.go", 260, "", "O", "metric counter"),
    ("syncIncrease.go", 202, "", "O", "metric counter"),
    ("syncIncrease.go", 418, "", "E", "flushing an empty batch is a no-op"),
    ("syncIncrease.go", 313, "", "O", "send id feeds the delay metric only"),
    ("syncIncrease.go", 288, "", "E", "slice capacity"),
    ("syncIncrease.go", 331, "", "O", "debug-log branch"),
    ("common/utils.go", 244, "offset - 0", "S", "start position after +CONTINUE one byte too far: survived C04 (C05 killed it). C04 now judges the checkpoints written after every real restart: `restart-checkpoint-offset-not-at-command-end`"),
    ("dbSyncer.go", 128, "", "E", "initial database 1 instead of 0 with resume off: the sender re-selects it, and a master always sends SELECT before the first command after a full sync"),
    ("dump.go", 143, "", "O", "log-only branch"),
    ("dump.go", 173, "", "G", "progress loop never ends (no-verdict: the run hits the driver's budget); dump mode's termination is not part of C05's statement"),
    ("restore.go", 251, "", "S", "restore mode's command phase was never executed by C06: new fifth data path; both mutants now end in `process-aborted`, and the phase produced finding F06-b"),
    ("restore.go", 256, "", "S", "see above"),
    ("syncRDB.go", 58, "", "E", "lastdb bookkeeping under target.db: re-selecting the same database is harmless"),
    ("restore.go", 207, "", "G", "progress loop never ends (no-verdict); restore mode's termination is judged by C07 only through its watchdog (inconclusive)"),
    ("restore.go", 212, "", "O", "progress output"),
    ("syncRDB.go", 110, "", "O", "progress output"),
    ("syncBegin.go", 163, "", "G", "REPLCONF ACK 1 instead of 0 while the full phase runs: within `<= start + received` unless the announced start offset is 0; the pinned tree itself acknowledges 0 there, which the statement does not describe either"),
    ("syncBegin.go", 120, "", "O", "status string"),
    ("syncBegin.go", 106, "", "O", "log-only branch"),
    ("pipe/pipe.go", 45, "", "E", "min(n, maxlen) at equality"),
    ("pipe/pipe.go", 57, "", "E", "min(n, maxlen) at equality"),
    ("pipe/pipe.go", 107, "", "S", "Read on an empty pipe returns (0, nil) at once and never reports the writer's close: the free-running readers spun until their watchdog (inconclusive). C09 now decides on state - writer gone, every written byte received, reads still returning without error 20 s later: `no-error-after-writer-close` (the run as a whole still needs the driver's budget because the scripted stage's helpers spin as well)"),
    ("redis/encoder.go", 146, "", "G", "a failing writer's error after the final CRLF is swallowed; writers that fail are not generated (the statement is about values and bytes)"),
    ("cupcake/rdb/decoder.go", 482, "", "E", "ParseFloat bitSize 63 behaves as 64"),
    ("redis_command.go", 91, "", "E", "lastkey 0 entries have no keys and return earlier"),
    ("command.go", 93, "", "E", "key count parsed in base 11: only compared with zero"),
    ("checkpoint.go", 88, "", "E", "database returned when no checkpoint exists: unused by the caller (full sync follows) and not in the statement"),
    ("checkpoint.go", 39, "", "E", "database returned together with an error"),
    ("checkpoint.go", 121, "", "E", "version parsed in base 9: versions are 0, 1, 2"),
    ("latencymonitor/producer.go", 58, "", "S", "mask 16384 instead of 16383: the key search never returns for ranges without slot 0 (the run hung until the driver's budget). C15 now has a search watchdog: `search-does-not-terminate`"),
    ("latencymonitor/producer.go", 59, "", "E", "lower bound exclusive: the first key found still lies in the range (ranges are wider than one slot in quick; thorough's singleton ranges kill it)"),
    ("syncRDB.go", 71, "", "N", "`continue` -> `break` after a filtered key ends the worker: C07/C06 kill it (keys missing); C15 does not observe full sync"),
    ("common/slot.go", 12, "", "E", "suffix length 5 instead of 4: still a key in range that the filter excludes"),
    ("rump.go", 505, "", "E", "slice pre-allocation"),
    ("rump.go", 548, "", "O", "statistics"),
    ("rump.go", 400, "", "O", "statistics"),
    ("decode.go", 120, "", "O", "printable rendering of the key (the `key` field); the statement is about the base64 fields"),
    ("decode.go", 98, "", "S", "progress loop never ends: used to be *inconclusive* after 24 minutes. C17 now reports `run-does-not-end-after-the-file-was-exhausted` once the output is complete and the command still runs"),
    ("decode.go", 105, "", "O", "progress output"),
    ("decode.go", 78, "", "G", "waits for one more worker than exist: decode never returns - same class as decode.go:98, now a violation (re-run after the C17 change)"),
    ("decode.go", 73, "", "E", "value sent on the join channel is ignored"),
    ("backlog/buff.go", 46, "", "G", "one-byte writes never return (Write loops on a store that accepts nothing): re-run by hand, the check ends *inconclusive* at the driver's budget; termination of Write is not part of the statement"),
    ("backlog/backlog.go", 142, "", "E", "default error of Close(): the function never stores the error it is given (see F18-a); readers learn about the close from the released store"),
    ("metric/variables.go", 57, "", "O", "content of the metric document; C19 is about passwords only"),
    ("metric/variables.go", 55, "", "O", "content of the metric document"),
    ("metric/variables.go", 58, "", "O", "content of the metric document"),
    ("metric/variables.go", 44, "", "O", "content of the metric document"),
    ("metric/variables.go", 41, "", "O", "content of the metric document"),
    ("dbSyncer.go", 119, "", "N", "received-bytes counter starts at 1: offset bookkeeping, C08's subject (ACK one ahead of what was received)"),
    ("dbSyncer.go", 94, "", "E", "size of the restart budget of Sync(); the statement only asks for a bounded number of supervisor retries"),
    ("supervisor.go", 45, "", "E", "initial value overwritten by the next statement"),
]


def triage(r):
    for suf, line, sub, disp, note in TRIAGE:
        if r["file"].endswith(suf) and r["line"] == line and sub in r["new"]:
            return disp, note
    return "?", "not triaged"


def main():
    rs = [json.loads(l) for l in open("/verif/mutation/results.jsonl")]
    per = collections.OrderedDict()
    for r in rs:
        per.setdefault(r["property"], collections.Counter())[r["verdict"]] += 1
    out = ["# Mutation testing of the checks", "",
           "Tool: `tools/mutate.py <n> [Cxx...]` - classic operators (relational/logical operator replacement, +-1 on integer",
           "literals, `continue`/`break`, negation removal, statement deletion) applied to lines inside each property's anchored",
           "line ranges; each mutant is written into a scratch worktree and judged by the property's own quick check",
           "(`VERIF_REPO`, no evidence written). This supplements the 260 hand-seeded changes in `seeded/`: those are realistic",
           "and hard to reach, these are mechanical and show which anchored lines no check executes or observes.", "",
           "| property | mutants | killed | survived | no verdict | does not compile |", "|---|---|---|---|---|---|"]
    tot = collections.Counter()
    for p, c in per.items():
        n = sum(c.values())
        out.append("| %s | %d | %d | %d | %d | %d |" % (p, n, c["killed"], c["survived"], c["no-verdict"], c["does-not-compile"]))
        tot.update(c)
    out.append("| all | %d | %d | %d | %d | %d |" % (sum(tot.values()), tot["killed"], tot["survived"], tot["no-verdict"], tot["does-not-compile"]))
    out += ["", "## Survivors and runs without verdict", "",
            "E = equivalent for the property, O = outside the statement, N = killed by a neighbouring property's check,",
            "S = led to a strengthened check (now killed), G = gap left open.", "",
            "| property | where | mutation | disposition |", "|---|---|---|---|"]
    disp = collections.Counter()
    for r in rs:
        if r["verdict"] in ("killed", "does-not-compile"):
            continue
        d, note = triage(r)
        disp[d] += 1
        out.append("| %s | %s:%d | `%s` -> `%s` | **%s** %s |" % (r["property"], r["file"].replace("src/", ""), r["line"], r["old"][:70].replace("|", "\\|"), r["new"][:70].replace("|", "\\|"), d, note))
    out += ["", "Dispositions: " + ", ".join("%s=%d" % kv for kv in sorted(disp.items())), ""]
    open("/verif/mutation/SUMMARY.md", "w").write("\n".join(out) + "\n")
    print("\n".join(out[-3:]))


main()
