#!/bin/bash
# usage: runall.sh [tier] [seed...]   runs every registered check, prints one line per check
T=${1:-quick}; shift
SEEDS=${@:-1}
cd "$(dirname "$0")/.."
for s in $SEEDS; do
  for id in C01 C02 C03 C04 C05 C06 C07 C08 C09 C10 C11 C12 C13 C14 C15 C16 C17 C18 C19 C20; do
    out=$(VERIF_SEED=$s ./vcheck $id --tier $T 2>&1); rc=$?
    echo "seed=$s rc=$rc $(echo "$out" | tail -1)"
    echo "$out" | grep "^VIOLATION\|^INCONCLUSIVE" | head -5
    if [ $rc -ne 0 ]; then echo "$out" | grep -A2 "^VIOLATION" | head -12; fi
  done
done
