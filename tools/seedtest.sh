#!/bin/sh
# usage: seedtest.sh <seed-dir-name under /verif/seeded> <property-id> [tier]
# applies the seeded change to /repo, runs the check, and always undoes the change afterwards.
S=/verif/seeded/$1; P=$2; T=${3:-quick}
[ -f "$S/patch.diff" ] || { echo "no $S/patch.diff"; exit 3; }
if [ -n "$(git -C /repo status --porcelain --untracked-files=no)" ]; then echo "/repo not clean"; exit 3; fi
git -C /repo apply "$S/patch.diff" || { echo "patch does not apply"; exit 3; }
# the evidence file describes the unchanged tree: keep it across this run on a changed one
[ -f /verif/evidence/$P.json ] && cp /verif/evidence/$P.json /tmp/seedtest.$$.ev
cd /verif && ./vcheck $P --tier $T > /tmp/seedtest.$$.log 2>&1; rc=$?
git -C /repo checkout -- . 
[ -f /tmp/seedtest.$$.ev ] && mv /tmp/seedtest.$$.ev /verif/evidence/$P.json
grep -c "^VIOLATION" /tmp/seedtest.$$.log | sed "s/^/violations: /"
grep -A2 "^VIOLATION" /tmp/seedtest.$$.log | head -${LINES_SHOWN:-14}
tail -1 /tmp/seedtest.$$.log
rm -f /tmp/seedtest.$$.log
echo "exit=$rc"
