#!/usr/bin/env python3
"""Automated mutation testing of the checks (a supplement to the hand-seeded changes in /verif/seeded).

usage: mutate.py <per_property> [Cxx ...]
For every property, source lines inside the property's anchored line ranges (+-3 lines; the ranges are those of the
pinned commit) are mutated with classic operators (relational operator replacement, +-1 on integer literals, && <-> ||,
negation removal, true <-> false, `continue`/`break` swap, statement deletion for simple assignments). Each mutant is
written into a scratch worktree, the property's quick check runs against it (VERIF_REPO, no evidence written), and the
verdict is recorded: killed (exit 1), survived (exit 0), no-verdict (build failure or exit 2).
Survivors are then run against the repository's own ./pkg/... tests: a survivor the suite kills is of no interest.
Results: /verif/mutation/results.jsonl (one line per mutant), /verif/mutation/SUMMARY.md.
"""
import json, os, random, re, subprocess, sys, time

V = "/verif"
WT = "/tmp/mut/mt"
ENV = dict(os.environ, GOFLAGS="-mod=mod", GOPROXY="off", GOSUMDB="off", GOTOOLCHAIN="local")

def ranges(where):
    out = []
    cur = None
    for tok in re.split(r"[,\s]+", where):
        m = re.match(r"(src/[\w/.\-]+\.go):(\d+)-(\d+)", tok) or re.match(r"(src/[\w/.\-]+\.go):(\d+)$", tok)
        if m:
            cur = m.group(1)
            lo = int(m.group(2)); hi = int(m.group(3)) if m.lastindex >= 3 else lo
            out.append((cur, lo, hi))
            continue
        m = re.match(r"(\d+)-(\d+)$", tok)
        if m and cur:
            out.append((cur, int(m.group(1)), int(m.group(2))))
    return out

OPS = [
    (r"(?<![<>=!])<=(?!=)", "<"), (r"(?<![<>=!-])<(?![<=-])", "<="), (r"(?<![<>=!-])>=(?!=)", ">"), (r"(?<![<>=!-])>(?![>=])", ">="),
    (r"==", "!="), (r"!=", "=="), (r"&&", "||"), (r"\|\|", "&&"),
    (r"\btrue\b", "false"), (r"\bfalse\b", "true"), (r"\bcontinue\b", "break"),
    (r"(?<![\w.\"])(\d+)(?![\w.\"x])", lambda m: str(int(m.group(1)) + 1)), (r"(?<![\w.\"])([1-9]\d*)(?![\w.\"x])", lambda m: str(int(m.group(1)) - 1)),
    (r"\+ 1\b", "+ 0"), (r"- 1\b", "- 0"), (r"\+= ", "-= "), (r"!(\w)", r"\1"),
]

def mutants_for(path, lo, hi, rng):
    src = open(path).read().split("\n")
    cands = []
    for i in range(max(0, lo - 4), min(len(src), hi + 3)):
        line = src[i]
        st = line.strip()
        if not st or st.startswith("//") or st.startswith("*") or st.startswith("/*") or "log." in st or st.startswith("import") or st.startswith('"') or "Panic" in st or "Errorf" in st or "Sprintf" in st:
            continue
        code = line.split("//")[0]
        for k, (pat, rep) in enumerate(OPS):
            for m in re.finditer(pat, code):
                if code[:m.start()].count('"') % 2 == 1:
                    continue  # inside a string literal
                new = code[:m.start()] + (rep(m) if callable(rep) else m.expand(rep)) + code[m.end():]
                if new != code:
                    cands.append((i, line, new + line[len(code):], k))
        if re.match(r"^\s*[\w.\[\]\*]+(\s*[-+]?=|\+\+|--)[^=]", code) and not code.rstrip().endswith("{") and ":=" not in code:
            cands.append((i, line, re.match(r"^\s*", line).group(0) + "_ = 0 // statement deleted", 99))
    rng.shuffle(cands)
    return cands

def run(cmd, **kw):
    kw.setdefault("env", ENV)
    return subprocess.run(cmd, stdout=subprocess.PIPE, stderr=subprocess.STDOUT, universal_newlines=True, **kw)

def main():
    per = int(sys.argv[1])
    only = set(sys.argv[2:])
    props = [json.loads(l) for l in open(V + "/properties.jsonl")]
    if not os.path.isdir(WT):
        run(["git", "-C", "/repo", "worktree", "add", "-q", "--detach", WT, "HEAD"])
    run(["git", "-C", WT, "checkout", "-q", "--detach", run(["git", "-C", "/repo", "rev-parse", "HEAD"]).stdout.strip()])
    run(["git", "-C", WT, "checkout", "--", "."])
    out = open(V + "/mutation/results.jsonl", "a")
    for p in props:
        pid = p["id"]
        if only and pid not in only:
            continue
        rng = random.Random(hash(pid) % 100000 + 7)
        pool = []
        for m in p["anchors"]["mechanism"]:
            for (f, lo, hi) in ranges(m["where"]):
                path = os.path.join(WT, f)
                if os.path.exists(path):
                    pool += [(f,) + c for c in mutants_for(path, lo, hi, rng)]
        rng.shuffle(pool)
        seen, done = set(), 0
        for (f, i, old, new, op) in pool:
            if done >= per:
                break
            if (f, i, op) in seen:
                continue
            seen.add((f, i, op))
            path = os.path.join(WT, f)
            lines = open(path).read().split("\n")
            if lines[i] != old:
                continue
            lines[i] = new
            open(path, "w").write("\n".join(lines))
            # must compile (with the overlay the checks use): cheap pre-check through go vet-less build of the package
            pkgdir = os.path.dirname(path)
            t0 = time.time()
            r = run(["./vcheck", pid], cwd=V, env=dict(ENV, VERIF_REPO=WT, VERIF_NO_EVIDENCE="1"))
            txt = r.stdout
            verdict = {0: "survived", 1: "killed"}.get(r.returncode, "no-verdict")
            if "BUILD-FAILED" in txt:
                verdict = "does-not-compile"
            rec = {"property": pid, "file": f, "line": i + 1, "operator": op, "old": old.strip(), "new": new.strip(), "verdict": verdict, "check_s": round(time.time() - t0, 1)}
            if verdict == "killed":
                m = re.search(r"sig:\s+(\S+)", txt)
                rec["first_signature"] = m.group(1) if m else ""
            if verdict == "survived":
                rel = "./" + os.path.relpath(pkgdir, os.path.join(WT, "src")) + "/..."
                if f.startswith("src/pkg/"):
                    t = run(["go", "test", "-vet=off", "-count=1", rel], cwd=os.path.join(WT, "src"))
                    rec["suite_kills_it"] = "FAIL" in t.stdout and "cupcake/rdb" not in "".join(l for l in t.stdout.split("\n") if l.startswith("FAIL\t"))
                else:
                    rec["suite_kills_it"] = False  # redis-shake/... packages have no runnable tests for these files
            out.write(json.dumps(rec) + "\n"); out.flush()
            print(pid, verdict, f + ":" + str(i + 1), "|", old.strip()[:60], "=>", new.strip()[:60], flush=True)
            run(["git", "-C", WT, "checkout", "--", "."])
            if verdict != "does-not-compile":
                done += 1
    out.close()

main()
