#!/bin/sh
# usage: confirm_seed.sh <ID> <seedname>   (worktree /tmp/mut/<ID> with the change applied, uncommitted)
# Confirms: baseline pkg tests pass with the change; demo fails with it; demo passes without it.
ID=$1; S=/verif/seeded/$2; W=/tmp/mut/$ID
export GOFLAGS=-mod=mod GOPROXY=off GOSUMDB=off GOTOOLCHAIN=local
cp -r $W/patch.diff $W/meta.json $W/demo $S/ 2>/dev/null
CMD=$(python3 -c "import json;print(json.load(open('$W/meta.json'))['demo_cmd'])")
cd $W || exit 3
git checkout -- src 2>/dev/null; git apply patch.diff || { echo "$2: patch.diff does not apply"; exit 3; }
echo "### baseline with change" > $S/confirm.log
(cd $W/src && go test -vet=off -count=1 ./pkg/... 2>&1 | grep -v "^ok\|no test files" ) >> $S/confirm.log 2>&1
echo "### demo WITH change" >> $S/confirm.log
sh -c "$CMD" > $S/demo_with.log 2>&1; tail -5 $S/demo_with.log >> $S/confirm.log
git apply -R patch.diff
echo "### demo WITHOUT change" >> $S/confirm.log
sh -c "$CMD" > $S/demo_without.log 2>&1; tail -5 $S/demo_without.log >> $S/confirm.log
git apply patch.diff
W_FAIL=$(grep -c "^FAIL\|--- FAIL" $S/demo_with.log); WO_OK=$(grep -c "^ok\|^PASS" $S/demo_without.log); WO_FAIL=$(grep -c "^FAIL\|--- FAIL" $S/demo_without.log)
BASE_BAD=$(sed -n '/### baseline/,/### demo WITH/p' $S/confirm.log | grep "^FAIL" | grep -v "cupcake/rdb" | grep -vc "^FAIL$")
echo "$2: demo_with_FAILs=$W_FAIL demo_without_ok=$WO_OK demo_without_FAILs=$WO_FAIL baseline_unexpected_fail_pkgs=$BASE_BAD"
rm -f $S/demo_with.log $S/demo_without.log
