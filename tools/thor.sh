#!/bin/bash
# usage: thor.sh <Cxx...>   thorough tier, sequentially, one summary line each (logs in .run/thor/), with the peak
# resident memory of all worker processes (sampled every 2 s)
cd "$(dirname "$0")/.."
mkdir -p .run/thor
T=${TIER:-thorough}
for id in "$@"; do
  s=$(date +%s)
  ( peak=0; while sleep 2; do m=$(ps -eo rss,args | awk '/wshake|wpkg/ && !/awk/ {s+=$1} END {print int(s/1024)}'); [ "$m" -gt "$peak" ] && peak=$m && echo $peak > .run/thor/$id.peak; done ) &
  W=$!
  VERIF_SEED=${VERIF_SEED:-1} ./vcheck $id --tier $T > .run/thor/$id.log 2>&1; rc=$?
  kill $W 2>/dev/null
  echo "rc=$rc $(($(date +%s)-s))s peakMB=$(cat .run/thor/$id.peak 2>/dev/null) $(tail -1 .run/thor/$id.log)"
  grep "^VIOLATION\|^INCONCLUSIVE" .run/thor/$id.log | head -5
done
