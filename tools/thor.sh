#!/bin/bash
# usage: thor.sh <Cxx...>   thorough tier, sequentially, one summary line each (logs in .run/thor/)
cd "$(dirname "$0")/.."
mkdir -p .run/thor
for id in "$@"; do
  s=$(date +%s)
  VERIF_SEED=${VERIF_SEED:-1} ./vcheck $id --tier thorough > .run/thor/$id.log 2>&1; rc=$?
  echo "rc=$rc $(($(date +%s)-s))s $(tail -1 .run/thor/$id.log)"
  grep "^VIOLATION\|^INCONCLUSIVE" .run/thor/$id.log | head -5
done
