#!/usr/bin/env python3
# usage: mkoverlay.py <worktree>   -> prints the path of an overlay.json that de-duplicates the KB..PB const block of
# src/redis-shake/common/common.go in that worktree (the pinned tree declares it twice, so redis-shake/* does not compile).
import json, os, re, sys
wt = os.path.abspath(sys.argv[1])
p = os.path.join(wt, "src/redis-shake/common/common.go")
src = open(p).read()
blk = re.compile(r"const \(\n\tKB = 1024\n\tMB = 1024 \* KB\n\tGB = 1024 \* MB\n\tTB = 1024 \* GB\n\tPB = 1024 \* TB\n\)\n")
ms = list(blk.finditer(src))
if len(ms) == 2:
    src = src[: ms[1].start()] + src[ms[1].end():]
d = os.path.join(wt, ".ov"); os.makedirs(d, exist_ok=True)
out = os.path.join(d, "common_overlay.go"); open(out, "w").write(src)
oj = os.path.join(d, "overlay.json"); json.dump({"Replace": {p: out}}, open(oj, "w"))
print(oj)
