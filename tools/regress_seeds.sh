#!/bin/bash
# usage: regress_seeds.sh [seed-id ...]      (default: every directory under /verif/seeded)
# Re-runs the quick tier of each seed's own check against the seeded change, in a scratch worktree of /repo HEAD
# (VERIF_REPO), so /repo itself is never touched and no evidence is written. One line per seed goes to
# /verif/seeded/REGRESSION.txt: <seed> <caught|MISSED|does-not-apply|no-verdict> <first signature>
# The worktree is removed at the end.
WT=/tmp/mut/reg
OUT=/verif/seeded/REGRESSION.txt
mkdir -p /tmp/mut
git -C /repo worktree remove --force $WT 2>/dev/null
git -C /repo worktree add --detach $WT HEAD >/dev/null 2>&1 || { echo "cannot create worktree"; exit 3; }
seeds="$@"
[ -z "$seeds" ] && seeds=$(ls /verif/seeded | grep -E '^C[0-9]{2}-')
[ $# -eq 0 ] && : > $OUT
for s in $seeds; do
  p=${s%%-*}
  d=/verif/seeded/$s
  [ -f $d/patch.diff ] || continue
  git -C $WT checkout -q -- . ; git -C $WT clean -fdq
  if ! git -C $WT apply $d/patch.diff 2>/dev/null; then
    echo "$s does-not-apply" | tee -a $OUT; continue
  fi
  (cd /verif && VERIF_REPO=$WT VERIF_NO_EVIDENCE=1 ./vcheck $p quick) > /tmp/mut/reg.log 2>&1; rc=$?
  sig=$(grep -m1 "sig:" /tmp/mut/reg.log | sed 's/^ *sig: *//')
  case $rc in
    1) v=caught;;
    0) v=MISSED;;
    *) v=no-verdict; sig=$(grep -m1 -E "INCONCLUSIVE|BUILD-FAILED" /tmp/mut/reg.log);;
  esac
  echo "$s $v $sig" | tee -a $OUT
done
git -C /repo worktree remove --force $WT; git -C /repo worktree prune
rm -f /tmp/mut/reg.log
