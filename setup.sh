#!/bin/sh
# Offline setup: warm the Go build cache for both workers (race and non-race) so quick checks start fast.
# The checks themselves always rebuild from /repo's working tree; this only pre-compiles dependencies.
export GOFLAGS=-mod=mod GOPROXY=off GOSUMDB=off GOTOOLCHAIN=local
cd /verif/harness || exit 1
mkdir -p /verif/.run/setup
python3 - <<'PY'
import sys
sys.path.insert(0, '/verif')
import importlib.machinery, importlib.util
l = importlib.machinery.SourceFileLoader('vcheck', '/verif/vcheck')
spec = importlib.util.spec_from_loader('vcheck', l)
m = importlib.util.module_from_spec(spec)
l.exec_module(m)
import os
rd = '/verif/.run/setup'
ok = True
for w in ('wpkg', 'wshake'):
    for race in (False, True):
        if m.build(w, race, rd) is None:
            ok = False
sys.exit(0 if ok else 1)
PY
rc=$?
rm -rf /verif/.run/setup
exit $rc
