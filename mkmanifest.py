#!/usr/bin/env python3
"""Regenerates MANIFEST.json from the table below (run after adding a check)."""
import json, os, subprocess

V = os.path.dirname(os.path.abspath(__file__))

# id -> (category, technique, text, note, design_ref)
CHECKS = {
 "C02": ("exploration",
  "model-Redis monitor: entries from the real loader restored through utils.RestoreRdbEntry into an executable model target; whole target database compared with the expected one after every call",
  "6000/1000000 cells of kind x physical encoding x element count {1,2,99,100,101,250} x key_exists x pre-existing key {none,same type,other type} x target.version (fetched or typed, with the big_key_threshold/TargetReplace pairing SanitizeOptions produces) x threshold around the payload size x expiry {none,future,past} x shift {0,+-1h} x hash-tag replacement x idle/freq, plus 4/24 real 36 MiB chunked hashes (three chunks); values by logical equality, TTL by a load-independent interval, returned error and process survival checked; floors per route (plain, big-key, quicklist, fallback, chunked).",
  "Trusted: lib/miniredis RESTORE semantics (BUSYKEY before payload check, 'Bad data format' for types unknown to the target version, REPLACE from 3.0) and lib/refrdb. Cluster targets and ucloud key stripping are out of reach.", "DESIGN.md §5/C02"),
 "C01": ("exploration",
  "generator-by-construction oracle: RDB files whose expected record list and exact payload bytes are emitted by the same walk as the bytes; real loader output compared record by record; child processes, Go race detector on the loader goroutine/channel",
  "3000 (quick) / 240000 (thorough) generated RDB files covering every value type and physical encoding (all ziplist entry encodings, intset widths, zipmap, quicklist, LZF with overlapping and far (> 256 bytes, deliberately sought through a trigram index) back-references in values, key names and Lua scripts of up to 1 KB, int strings, streams with groups/PEL/consumers), every length form, versions 1-9, s/ms expiry, idle/freq, aux/lua/resize/module-aux (every sub-opcode) between keys and alternating SELECTDB are parsed by rdb.NewLoader (a tenth through a 1..7-byte dribbling reader) and by utils.NewRDBLoader; each record's db/key/type/expiry/idle/freq and the byte-exact checksummed payload are compared with the generator's expectation; 2/8 files with hashes above the 16 MiB chunk limit check chunk concatenation, trailers, expiry on every chunk and the neighbours. Coverage floors per encoding and metadata kind.",
  "Trusted: lib/rdbgen (self-tested against the independent decoder lib/refrdb on every run). Zipmap item lengths >= 253 and checksum-less (rdbchecksum no / version < 5) files are not generated.", "DESIGN.md §5/C01"),
 "C09": ("exploration",
  "runtime monitor: scripted operation programs vs a byte-FIFO model with goroutine-state (sync.Cond.Wait) inspection for block/wake; free-running writer/reader under the Go race detector with a stream-prefix/drain oracle",
  "Thousands of seeded programs of Write/Read/Buffered/Available/Close (chunks 0,1,cap-1,cap,cap+1,2cap+3; close at any step by either side; mem 4-12 KiB and file 4-8 MiB pipes) are executed one operation at a time; a FIFO model predicts 'result or blocks' and the parked/woken state of the real goroutine is read from runtime.Stack, so lost wake-ups and spurious blocking are decided without timers; data is position-coded. Free-running concurrent runs add interleavings under -race (any race report in pipe code is a violation). 2400/120000 scripted memory programs, 24/720 file-backed.",
  "Trusted: the 60-line FIFO model; runtime.Stack state names. One writer + one reader goroutine as the property states.", "DESIGN.md §5/C09"),
 "C10": ("exploration",
  "reference-codec monitor: strict independent RESP codec classifies every generated value, stream and single-point mutant; tool result compared value-for-value and byte-for-byte (offset)",
  "Random value trees and inline lines are round-tripped and decoded from LF-interleaved streams through 16/100/4096-byte bufio over 1-byte and odd-chunk readers, comparing values after the whole stream was consumed and the Decoder offset after every value with the bytes really consumed; for ~250 (quick) / 2500 (thorough) encodings <=200 bytes every delete/replace/insert position and truncation is classified by the reference as must-error / valid(value) / unclassified and compared with the tool. Stream decoding runs in child processes because the offset API aborts the process on error.",
  "Trusted: lib/refresp (strict RESP + the two documented leniencies). Lenient numeric forms (+5, 007) and huge lengths are skipped and counted.", "DESIGN.md §5/C10"),
 "C11": ("fault_enumeration",
  "fault enumeration, exhaustive per artefact: every single-byte substitution (255 values) at every position and every truncation of generated RDB files and of DUMP payloads emitted by the tool, run through the real verifiers; digests compared with a bitwise CRC-64/Jones reference",
  "digest.New, the in-repo and the module crc64 are compared with a bitwise CRC-64/Jones over random strings and chunkings (1-byte, empty writes, Reset). For 16/480 generated RDB files (<=300 bytes, header versions 1-9) every position x 255 substitutes and every truncation must make Header..Footer fail and the intact file must verify, from a contiguous source and in five split deliveries (1-byte, 1/2/3/7, halves, small bufio over short reads); for 32/960 payloads produced by the loader every position x 255 substitutes, every truncation and every length 0..9 must be rejected by rdb.DecodeDump and CheckVersionChecksum, intact ones accepted with the reference CRC, and versions above the supported one with a recomputed valid CRC rejected. Exhaustive per artefact (about 0.5M RDB mutants and 1M payload checks in quick). Concurrent stage: 24/600 groups of 2-16 loaders parse their own intact files at the same time (half of them from a socket-like source); every emitted payload trailer must be the CRC-64 of its own bytes and every end-of-file check must pass.",
  "Trusted: lib/refcrc. RDB artefacts carry no aux/module-aux items (a corrupted aux length makes the loader copy gigabytes per mutant); a process crash on a corrupted artefact counts as rejection and is reported.", "DESIGN.md §5/C11"),
 "C12": ("exploration",
  "generator-by-construction oracle + round-trip monitor: logical values -> EncodeDump -> DecodeDump; rdbgen compact encodings -> real loader -> ObjEntry compared with the known logical value; NewEncoder files -> loader",
  "(a) DecodeDump(EncodeDump(v)) == v with element order and bit-exact scores for strings at every int8/16/32 boundary (+ '-0', '+1', '007', ' 1'...), lengths at 63/64/16383/16384, 10k/200k scores over special and random float64 bit patterns, random values; each payload is also decoded by the independent reference; (a2) 60/1200 batches of 40 payloads held while the later ones are serialised (EncodeDump and ObjEntry.BinEntry) and 8 goroutines serialising at the same time - every payload keeps its bytes and its value; (b) every physical encoding (16 labels, coverage floor each) generated from a known logical value is parsed by the real loader and decoded through BinEntry.ObjEntry, then re-encoded; (c) rdb.NewEncoder files of (db,key,expiry,object) sequences are loaded back and the footer verified; the in-repo cupcake Encoder/Decoder pair.",
  "Trusted: lib/rdbgen + lib/refrdb (self-tested each run). Zipmap item lengths < 253 only.", "DESIGN.md §5/C12"),
 "C13": ("exploration",
  "reference-model monitor: literal statement over an independent Redis key-spec table, exhaustive to a key-count bound; plus the real incremental parser+sender (hook VerifRunIncr) on concurrent streams against a model target",
  "Every command of the tool table x every valid arity up to 4 (quick) / 6 (thorough) keys x all 2^n pass/fail patterns x whitelist/blacklist is rewritten by the real filter and compared argv-for-argv with the literal statement evaluated over an independently typed key-spec table; plus checkpoint keys, commands outside the table, no-filter identity. Exhaustive to the bound. Stream stage (the second observation point): 18/360 streams of 1500 random draws of the same cases (<= 3 keys, any letter case) interleaved with SELECT/PING/PUBLISH/FLUSHDB/commands outside the table (each also right after a dropped command) go through the real incremental parser and sender, three parser/sender pairs at a time; the sequence of (database, command, argv) executed by the model target must equal the reference pipeline's.",
  "Trusted: the reference key-spec table (Redis first/last/step) and that pass/fail is controlled by key prefix only.", "DESIGN.md §5/C13"),
 "C17": ("exploration",
  "generator-by-construction oracle over the real decode command: output file parsed and compared as a multiset with the generator's element list, for parallel 1..64, in child processes under the Go race detector",
  "600/12000 generated RDB files (classic types in all 16 physical encodings, binary and non-UTF-8 keys/values, any finite score incl. -0 and subnormals, lua scripts and other metadata between keys, several databases, expiries) are decoded by run.CmdDecode.Main with parallel in {1,2,4,16,64} (floor per degree); every output line is parsed and the multiset of (db, expireat, key, type, index|field|member, value, score) must equal the generator's list, with one aux line per script. Files with +-Inf/NaN scores and one hash above 16 MiB run on a fixed schedule (both are recorded known findings: the process aborts).",
  "Trusted: lib/rdbgen. Script lines are counted, not compared (the tool prints them unencoded).", "DESIGN.md §5/C17"),
 "C18": ("exploration",
  "runtime monitor: scripted programs vs exact offset model with goroutine-state inspection (up to 3 simultaneous waiters); concurrent histories recorded at the API boundary and checked for linearizability with porcupine; interval oracle for ring-crossing writes; Go race detector",
  "Seeded programs of Write/ReadAt/WaitAt/DataRange/NewReader/SeekTo/IsValid/Reader.Read/Close run against the model {wpos, capacity, closed} with position-coded content, offsets aimed at both validity edges (wpos-cap-1..+1, wpos..+1), totals up to dozens of laps; waiting and wake-up of every parked reader are read from goroutine states. 150/6000 concurrent histories (1 writer, 2-4 readers) are checked with porcupine v1.3.0 (60 s timeout => inconclusive); ring-crossing writes under an interval oracle; 45k/1.8M rounds of 9 concurrent writers (one with payloads that straddle the ring end) whose self-describing payloads must each be contiguous in the log; any -race report in backlog code is a violation.",
  "Trusted: the offset model (30 lines) and porcupine. DataRange after Close is not asserted (statement is silent).", "DESIGN.md §5/C18"),
 "C14": ("exploration",
  "reference-model monitor over a loopback model target: generated checkpoint states -> real checkpoint.LoadCheckpoint -> return values and keyspace afterwards compared with a reference 'newest own checkpoint' function",
  "800/16000 target states written the way the incremental sender writes them, for up to 4 sources whose addresses are prefixes of one another (10.0.0.1:6379/63790, h:1/h:10, an address containing 'offset'), spread over databases {0,1,5,15} with partial, cleared, old-version and newer-version checkpoints and data keys; each state is loaded 5 times (map iteration order) over TCP; returned run id/offset/database/error and every hash field afterwards (stale own fields gone, other sources and the chosen checkpoint intact, data untouched) are compared with the reference. Writer/reader agreement is additionally exercised end to end by C04's restarts.",
  "Trusted: the 30-line reference and lib/miniredis (INFO keyspace, HGETALL, HDEL). Equal offsets in two databases are not generated.", "DESIGN.md §5/C14"),
 "C15": ("exploration",
  "reference-model monitor: spec-derived slot function and bitwise CRC16 run against every enumerated/random key; result re-hashing for chosen checkpoint keys",
  "Every string over {'{','}',a,b} up to length 8 (quick) / 10 (thorough) plus 60k/600k random binary keys go through KeyToSlot and are compared with a slot function typed from the Cluster specification; all three CRC16 copies are compared with a bitwise CRC16/XMODEM; every ChoseSlotInRange / findKeyInRange result is re-hashed by the reference and must land in range and be excluded by FilterKey (thorough: all 16384 singleton ranges); the ranges asked of one process include families related by their decimal digits ([1,112]/[11,12]), by a shared boundary or by width. Exhaustive to the stated bound, sampled beyond it.",
  "Trusted: the 25-line reference (check values and the spec's three hash-tag examples are re-verified on every run).", "DESIGN.md §5/C15"),
}

CHECKS["C20"] = ("fault_enumeration",
  "fault-sequence monitor: scripted fake shard nodes on loopback ports (per-round behaviour), real GetSlotState, result compared with a reference selection; probe counts observed at the nodes",
  "160/1600 topologies x failure sequences: 1-5 nodes in any order, one or two masters appearing from probe round 1..7 or never, every other round drawn from {replica, connection refused, accept-and-drop, -ERR, -LOADING, INFO without a role line (incl. decoy 'role:master' inside another line), non-RESP garbage, integer reply}. The chosen Source must report master in the round it was chosen, Slaves must be every other known node exactly once, an error must be returned iff no node reported master within 1+6 rounds, no node is probed more than 7 times, descriptor fields are preserved. No-master cases wait out the real 21 s back-off (cases run concurrently).",
  "Trusted: the fake nodes and the round = connection-count assumption. Silent nodes (accept, never answer) are not generated (no read timeout; not in the statement's fault list).", "DESIGN.md §5/C20")

CHECKS["C07"] = ("exploration",
  "schedule-controlling model target: loopback model Redis whose scheduler decides which worker connection's pending command is applied next; exactly-once / right-database / completion-at-return / failure-reported oracles over the per-connection command log; Go race detector",
  "144/9600 runs of the real syncRDBFile (hook) and CmdRestore.Main over generated RDBs (50-400 keys over 1-6 databases with SELECTDB alternating between consecutive keys, lua scripts in between) with parallel in {1,2,3,8,32}, target.db in {-1,2}, key/db black/white lists and five scheduler policies (random, round-robin, starve-one, newest/oldest-first); at the moment the call returns every expected (db,key) must have been restored exactly once in the right database with the source value, nothing may arrive later, scripts are loaded once each; one run in six injects an error reply or BUSYKEY on a chosen key and the run must report it (returned error / non-successful process end). Evidence counts distinct interleaving signatures and the maximum number of simultaneously pending connections. One scenario per run holds the first chunk's DEL of a 36 MiB hash back (recorded known finding).",
  "Trusted: lib/miniredis and its scheduler (the settle time only shapes interleavings; no verdict depends on it). One RESTORE per key (no quicklists, threshold above every payload).", "DESIGN.md §5/C07")

CHECKS["C05"] = ("exploration",
  "byte-stream monitor: scripted master with chosen framing and TCP fragmentation, position-coded payloads, byte-for-byte comparison of what leaves the pipe / lands in the dump file; link drop and resume observed at the master; Go race detector",
  "180/6000 hand-offs through the real sendPSyncCmd (hook), the dump path (hook) and utils.Iocopy: 0-5 keep-alive newlines before the reply and before '$n', +FULLRESYNC/+CONTINUE in three letter cases, RDB sizes 1 B .. 34 MiB incl. 8191/8192/8193 and 65535/65536/65537, stream 1 B .. 200 KB, fragmentation plans (all at once, 1-byte dribble, odd sizes, 8 KiB+-1, 1-byte writes across the '$n' header and across the RDB/stream boundary, random) x reader pacing (fast, slow, bursty); pipe content = rdb||stream exactly, returned run id / start offset / size = announced, dump file = the n RDB bytes (every second dump overwrites an older, longer file at the same path) and the reader's leftover = beginning of the stream; every fourth psync case kills the link after half of the stream and requires PSYNC <announced id> <start+received+1> and a seamless continuation.",
  "Trusted: lib/fakesource. TLS and the dead SYNC path of sync mode are out of reach.", "DESIGN.md §5/C05")

CHECKS["C03"] = ("exploration",
  "reference-pipeline monitor: generated master streams fed with chosen arrival timing through the real incremental path (end to end via DbSyncer.Sync against a scripted master and a loopback model target, and parser+sender pair on an in-process connection recording Send/Flush boundaries); applied command sequence compared with a reference filter pipeline; Go race detector",
  "640/9600 streams of 1-400 commands from a master grammar (SELECT switches incl. re-selects, SELECT inside transactions and the configured target.db, writes in any letter case incl. argument-less FLUSHDB/FLUSHALL, PING, MULTI..EXEC, sentinel hellos, EVAL/SCRIPT/EVALSHA, opinfo, keep-alive newlines) under 16/64 configurations (db/key white/black lists, filter.lua, target.db, resume, sender.count x sender.size) and arrival plans (all at once, 1 command/ms, arbitrary byte splits, groups 480..520 ms or 1.2 s apart); the data commands applied at the target (bookkeeping stripped, no foreign MULTI/EXEC) must equal the reference in order, arguments and database, exactly once, within 5 s of the last byte. Evidence counts observed batch partitions (>20k flushes) and the worst flush latency.",
  "Trusted: lib/reffilter, lib/miniredis, lib/fakesource. 'All timings' is sampled; PINGs are not compared; cluster targets out of reach.", "DESIGN.md §5/C03")

CHECKS["C04"] = ("fault_enumeration",
  "crash-point enumeration over a recorded history: the byte stream the model target received in an uninterrupted resume-enabled end-to-end run is cut at every command boundary and at every byte of a sample of commands, each prefix replayed into a model Redis with MULTI/EXEC semantics and compared with the reference source history up to the stored checkpoint offset; real restarts from sampled cut states; Go race detector",
  "16/576 histories (every second one with the source link breaking once mid-stream and the tool re-attaching with PSYNC/CONTINUE; multi-database streams with transactions, pings, filtered commands, non-idempotent INCR/APPEND/RPUSH; sender.count {1,2,5,1024}; arrival plans that let the 500 ms ticker split batches; db/key filters) give >16k (quick) cut states: for each, the newest stored checkpoint must carry the announced run id and version, an offset that is exactly the end of a forwarded command, sit in the database that command ran in, and the data must equal the reference history up to that offset (or the post-full-sync state when no checkpoint exists yet). From 88/6000+ distinct checkpoints a real DbSyncer is restarted on that state against a master honouring PSYNC <id> <offset+1>: it must send exactly that PSYNC and end with the uninterrupted run's dataset (nothing lost, nothing applied twice).",
  "Trusted: lib/miniredis MULTI/EXEC + disconnect semantics, reference history via lib/reffilter. A cut after byte k and 'the target ignores everything after byte k' are the same event for the target; partial application inside one command is not a Redis behaviour.", "DESIGN.md §5/C04")
CHECKS["C08"] = ("fault_enumeration",
  "history monitor at the master: every REPLCONF ACK and PSYNC is recorded with the number of stream bytes written by then; inequalities valid for any tick phase, equality after a quiet period; link drops enumerated over position classes; final dataset compared with the reference history",
  "64/2304 end-to-end histories of 6-12 s wall-clock (several 1 s ack ticks): start offsets {0,1,2^31-5,2^40} x traffic plans (early burst then idle, burst-idle-burst, steady trickle, traffic during a slowed full phase) x drop plans (none, at a command boundary, inside a command, one byte after a boundary, twice, while idle) x resume on/off. Every ACK <= start+written and non-decreasing; after 2.7 s of silence ACK == start+total; every reconnect sends PSYNC <announced id> <start+received+1>; the final target equals the reference history (a lost or repeated byte changes INCR/APPEND/RPUSH results); with resume on every stored checkpoint offset is the end of a forwarded command.",
  "Trusted: lib/fakesource bookkeeping (drops are graceful closes, so written == received). Timing enters only through the 2.7 s quiet period (>= 2 ticks).", "DESIGN.md §5/C08")

CHECKS["C06"] = ("exploration",
  "reference-predicate monitor plus cross-path agreement: the same generated keyspace pushed through full sync, restore mode, rump and the incremental path under the same configuration against model peers; arrival sets compared with a reference filter and pairwise",
  "(a) 200k/8M x 4 predicate evaluations (FilterKey, FilterDB, FilterSlot, FilterCommands) against lib/reffilter on keys built from the listed prefixes truncated/extended by one byte, hash tags, checkpoint-key variants and random bytes, database numbers incl. string-prefix neighbours (1 vs 10), command names in any letter case, under random list configurations. (b) 16/384 configuration runs (none, key black/white list, db black/white list, slot list, filter.lua, combinations, each also with target.db, a whitelist covering the checkpoint prefix) x 4 data paths (the incremental path as 13 stream orders - every ordered pair of leading databases - with one key in three travelling in a multi-key MSET) on one keyspace of ~80 keys over 4 databases with 2 Lua scripts: the set of (db,key) reaching the model target must equal the reference per path (slot list only in sync's full phase; checkpoint keys never via sync/restore, never via any path once a key filter exists), the same decision for the same key in every path, Lua scripts and script commands present exactly when filter.lua is off, opinfo never forwarded.",
  "Trusted: lib/reffilter, lib/miniredis. In the incremental path key decisions exist only for commands of the tool's table.", "DESIGN.md §5/C06")
CHECKS["C16"] = ("exploration",
  "model-peer monitor: the real CmdRump.Main against scripted model sources (SCAN pagination, vanishing keys, DUMP payloads in every encoding, PTTL) and a model target; final target keyspace compared with the expectation; termination observed",
  "96/1600 Main() calls, each with 2-5 model sources (2-30 keys each over several databases in all physical encodings, TTL none/long) and one model target: scripted SCAN pagination (single page, COUNT-sized, ragged pages with empty ones and sizes != COUNT, arbitrary cursor chains ending in 0), keys vanishing before DUMP or between DUMP and PTTL, big_key_threshold {60,120,400,50 MiB} so that element-wise expansion and plain RESTORE both occur, key_exists none/rewrite with pre-existing target keys, target.db, db/key filters, key-file driven scans with a listed but non-existent key. The target must hold exactly the expected keys: logical value, remaining TTL within the run's duration, right database; nothing else written; Main returns.",
  "Trusted: lib/miniredis as source and target, lib/rdbgen payloads. Cloud scanners and cluster targets out of reach; pttl == 0 not generated.", "DESIGN.md §5/C16")

CHECKS["C19"] = ("exploration",
  "output-scanning monitor: every run path executed in a child whose logger is redirected to a file, with distinct sentinel passwords that the fake peers require; every byte logged/printed and the renderings of the status documents are scanned for the sentinels",
  "9 scenarios (CmdSync.Main with full + incremental phase and a dropped source link, resume with checkpoint load, restart loop after a refused PSYNC until the tool's retry budget ends the process, restore mode, rump, dump, shard supervisor with failing nodes, checkpoint load incl. a wrong password, status documents) x log levels {debug, info, warn, error} = 36 child runs; about 100 KB of log output per sweep plus json/%v/%+v of conf.GetSafeOptions(), metric.NewMetricRest() and GetDetailedInfo() are scanned for both sentinels. The sentinels derive from VERIF_SEED.",
  "Trusted: nothing beyond substring search. The HTTP server and startup echo of redis-shake/main (does not build) are covered through the expressions they serve.", "DESIGN.md §5/C19")

PENDING_REASON = "monitor not built yet in this revision of /verif (planned in DESIGN.md §5); no claim is made"

def main():
    props = [json.loads(l) for l in open(os.path.join(V, "properties.jsonl"))]
    hooks_commits = subprocess.run(["git", "-C", "/repo", "log", "--format=%H", "--grep=^verif hooks"], stdout=subprocess.PIPE, universal_newlines=True).stdout.split()
    m = {
        "version": 1,
        "setup_cmd": "cd /verif && ./setup.sh",
        "hooks": {
            "guard": "verif",
            "enable": "go build -tags verif -overlay <generated: de-duplicated redis-shake/common/common.go> (done by /verif/vcheck for every check)",
            "baseline_off_cmd": "cd /repo/src && GOFLAGS=-mod=mod GOPROXY=off GOSUMDB=off GOTOOLCHAIN=local go test -json -vet=off -count=1 -timeout 25m ./...",
            "source_commits": hooks_commits,
            "add_only": True,
        },
        "engines": [
            {"name": "vcheck", "path": "/verif/vcheck", "serves_properties": sorted(CHECKS), "kind_free_text": "python driver: builds the worker from /repo's working tree, runs it under the Go race detector where concurrency matters, applies known_findings.jsonl, writes evidence"},
            {"name": "wshake/wpkg", "path": "/verif/harness", "serves_properties": sorted(CHECKS), "kind_free_text": "Go workers: workload generators, fake Redis peers, reference models and trace/history oracles observing the real code"},
        ],
        "checks": [],
        "not_applicable": [],
        "notes": "Technique family: runtime monitoring. Verdicts are 'held on the executions listed in evidence', never proofs. Known genuine defects that were not repaired are in /verif/known_findings.jsonl (status open); repaired ones are listed there as fixed with the commit.",
    }
    for p in props:
        pid = p["id"]
        if pid in CHECKS:
            cat, tech, text, note, ref = CHECKS[pid]
            m["checks"].append({
                "property_id": pid,
                "quick_cmd": "./vcheck %s --tier quick" % pid,
                "thorough_cmd": "./vcheck %s --tier thorough" % pid,
                "evidence_file": "/verif/evidence/%s.json" % pid,
                "replay_cmd_template": "./vcheck %s --replay {path}" % pid,
                "engine": "vcheck",
                "level_claimed": {"category": cat, "text": text, "design_ref": ref},
                "level_note": note,
                "technique": tech,
            })
        else:
            m["not_applicable"].append({"property_id": pid, "reason": PENDING_REASON})
    json.dump(m, open(os.path.join(V, "MANIFEST.json"), "w"), indent=1)
    print("checks:", len(m["checks"]), "not_applicable:", len(m["not_applicable"]))

main()
