#!/usr/bin/env python3
"""Regenerates MANIFEST.json from the table below (run after adding a check)."""
import json, os, subprocess

V = os.path.dirname(os.path.abspath(__file__))

# id -> (category, technique, text, note, design_ref)
CHECKS = {
 "C13": ("exploration",
  "reference-model monitor: literal statement over an independent Redis key-spec table, exhaustive to a key-count bound",
  "Every command of the tool table x every valid arity up to 4 (quick) / 6 (thorough) keys x all 2^n pass/fail patterns x whitelist/blacklist is rewritten by the real filter and compared argv-for-argv with the literal statement evaluated over an independently typed key-spec table; plus checkpoint keys, commands outside the table, no-filter identity. Exhaustive to the bound.",
  "Trusted: the reference key-spec table (Redis first/last/step) and that pass/fail is controlled by key prefix only.", "DESIGN.md §5/C13"),
 "C15": ("exploration",
  "reference-model monitor: spec-derived slot function and bitwise CRC16 run against every enumerated/random key; result re-hashing for chosen checkpoint keys",
  "Every string over {'{','}',a,b} up to length 8 (quick) / 10 (thorough) plus 60k/600k random binary keys go through KeyToSlot and are compared with a slot function typed from the Cluster specification; all three CRC16 copies are compared with a bitwise CRC16/XMODEM; every ChoseSlotInRange / findKeyInRange result is re-hashed by the reference and must land in range and be excluded by FilterKey (thorough: all 16384 singleton ranges). Exhaustive to the stated bound, sampled beyond it.",
  "Trusted: the 25-line reference (check values and the spec's three hash-tag examples are re-verified on every run).", "DESIGN.md §5/C15"),
}

PENDING_REASON = "monitor not built yet in this revision of /verif (planned in DESIGN.md §5); no claim is made"

def main():
    props = [json.loads(l) for l in open(os.path.join(V, "properties.jsonl"))]
    hooks_commits = subprocess.run(["git", "-C", "/repo", "log", "--format=%H", "--grep=^verif hooks"], stdout=subprocess.PIPE, universal_newlines=True).stdout.split()
    m = {
        "version": 1,
        "setup_cmd": "cd /verif && ./setup.sh",
        "hooks": {
            "guard": "verif",
            "enable": "go build -tags verif -overlay <generated: de-duplicated redis-shake/common/common.go> (done by /verif/vcheck for every check)",
            "baseline_off_cmd": "cd /repo/src && GOFLAGS=-mod=mod GOPROXY=off GOSUMDB=off GOTOOLCHAIN=local go test -json -vet=off -count=1 -timeout 25m ./...",
            "source_commits": hooks_commits,
            "add_only": True,
        },
        "engines": [
            {"name": "vcheck", "path": "/verif/vcheck", "serves_properties": sorted(CHECKS), "kind_free_text": "python driver: builds the worker from /repo's working tree, runs it under the Go race detector where concurrency matters, applies known_findings.jsonl, writes evidence"},
            {"name": "wshake/wpkg", "path": "/verif/harness", "serves_properties": sorted(CHECKS), "kind_free_text": "Go workers: workload generators, fake Redis peers, reference models and trace/history oracles observing the real code"},
        ],
        "checks": [],
        "not_applicable": [],
        "notes": "Technique family: runtime monitoring. Verdicts are 'held on the executions listed in evidence', never proofs. Known genuine defects that were not repaired are in /verif/known_findings.jsonl (status open); repaired ones are listed there as fixed with the commit.",
    }
    for p in props:
        pid = p["id"]
        if pid in CHECKS:
            cat, tech, text, note, ref = CHECKS[pid]
            m["checks"].append({
                "property_id": pid,
                "quick_cmd": "./vcheck %s --tier quick" % pid,
                "thorough_cmd": "./vcheck %s --tier thorough" % pid,
                "evidence_file": "/verif/evidence/%s.json" % pid,
                "replay_cmd_template": "./vcheck %s --replay {path}" % pid,
                "engine": "vcheck",
                "level_claimed": {"category": cat, "text": text, "design_ref": ref},
                "level_note": note,
                "technique": tech,
            })
        else:
            m["not_applicable"].append({"property_id": pid, "reason": PENDING_REASON})
    json.dump(m, open(os.path.join(V, "MANIFEST.json"), "w"), indent=1)
    print("checks:", len(m["checks"]), "not_applicable:", len(m["not_applicable"]))

main()
