package ppkg

import (
	"encoding/json"
	"errors"
	"fmt"
	"io"
	"os"
	"path/filepath"
	"sync"
	"sync/atomic"
	"time"

	"github.com/alibaba/RedisShake/pkg/libs/io/pipe"

	"verif/harness/lib/gstate"
	"verif/harness/lib/prng"
	"verif/harness/lib/res"
	"verif/harness/lib/wk"
)

func init() {
	wk.Register("C09", c09)
	wk.RegisterChild("c09script", c09scriptChild)
	wk.RegisterChild("c09free", c09freeChild)
}

// position-coded content: byte i of the stream is a pure function of (seed, i)
func posByte(seed uint64, i uint64) byte {
	x := (i + seed) * 0x9E3779B97F4A7C15
	return byte(x >> 56)
}

func fillPos(b []byte, seed, at uint64) {
	for i := range b {
		b[i] = posByte(seed, at+uint64(i))
	}
}

func checkPos(b []byte, seed, at uint64) int {
	for i := range b {
		if b[i] != posByte(seed, at+uint64(i)) {
			return i
		}
	}
	return -1
}

// ---- model of the pipe

type pipeModel struct {
	cap     int
	wpos    uint64 // total bytes accepted
	rpos    uint64 // total bytes delivered
	rclosed bool
	wclosed bool
	rerr    error // what writers must see after reader close
	werr    error // what readers must see after drain
	customR bool
	customW bool
}

func (m *pipeModel) buffered() int { return int(m.wpos - m.rpos) }

type opKind int

const (
	opWrite opKind = iota
	opRead
	opBuffered
	opAvailable
	opWClose
	opRClose
)

var opNames = [...]string{"Write", "Read", "Buffered", "Available", "WClose", "RClose"}

type pipeOp struct {
	Kind   opKind `json:"-"`
	Name   string `json:"op"`
	N      int    `json:"n,omitempty"`
	Custom bool   `json:"custom_err,omitempty"`
	// reader Close on the file backend: the owner of the backing file closed it first, so the pipe's own clean-up
	// (truncate) fails; everything the property says about a closed reader side must hold all the same
	FileFirst bool `json:"backing_file_closed_first,omitempty"`
}

type opResult struct {
	n   int
	err error
	buf []byte
}

var errCustomR = errors.New("custom reader error")
var errCustomW = errors.New("custom writer error")

// helpers carry a marker function name in their stack
//
//go:noinline
func c09WriteHelper(w pipe.Writer, b []byte, out *opResult, done chan struct{}) {
	out.n, out.err = w.Write(b)
	close(done)
}

//go:noinline
func c09ReadHelper(r pipe.Reader, b []byte, out *opResult, done chan struct{}) {
	out.n, out.err = r.Read(b)
	out.buf = b
	close(done)
}

type pending struct {
	done   chan struct{}
	out    *opResult
	n      int    // requested length
	base   uint64 // wpos at issue time (writer)
	marker string
}

type c09prog struct {
	Backend string   `json:"backend"`
	Cap     int      `json:"capacity"`
	Seed    uint64   `json:"seed"`
	Ops     []pipeOp `json:"ops"`
}

func isClosedPipe(err error) bool {
	return err != nil && (errors.Is(err, io.ErrClosedPipe) || err.Error() == io.ErrClosedPipe.Error() || containsStr(err.Error(), "closed pipe"))
}

func containsStr(s, sub string) bool {
	for i := 0; i+len(sub) <= len(s); i++ {
		if s[i:i+len(sub)] == sub {
			return true
		}
	}
	return false
}

func sameErr(got, want error) bool {
	if want == nil {
		return got == nil
	}
	if got == nil {
		return false
	}
	if want == io.EOF {
		return got == io.EOF || errors.Is(got, io.EOF) || got.Error() == "EOF"
	}
	return got == want || errors.Is(got, want) || got.Error() == want.Error()
}

const settleWatchdog = 20 * time.Second

// runScript executes one scripted program against a real pipe and checks every step against the model.
// Returns a signature of what was observed (for distinct counting).
func runScript(r *res.R, prog *c09prog, scratch string) {
	var rd pipe.Reader
	var wr pipe.Writer
	var f *os.File
	if prog.Backend == "file" {
		var err error
		f, err = os.OpenFile(filepath.Join(scratch, fmt.Sprintf("pipe-%d.dat", prog.Seed)), os.O_CREATE|os.O_RDWR|os.O_TRUNC, 0600)
		if err != nil {
			r.Inconcl("cannot create backing file: " + err.Error())
			return
		}
		defer os.Remove(f.Name())
		rd, wr = pipe.NewFilePipe(prog.Cap, f)
	} else {
		rd, wr = pipe.NewSize(prog.Cap)
	}
	m := &pipeModel{cap: prog.Cap}
	var pw, pr *pending // blocked writer / reader
	viol := func(sig, format string, a ...interface{}) {
		r.Violation("C09|"+prog.Backend+"|"+sig, fmt.Sprintf(format, a...), prog)
	}
	abort := func() {
		// release anything still parked so goroutines do not pile up
		rd.CloseWithError(errors.New("harness abort"))
		wr.CloseWithError(errors.New("harness abort"))
	}
	wraps := uint64(0)

	// finishWriter validates a completed write against the model
	finishWriter := func(p *pending, step int) bool {
		want := p.n
		var wantErr error
		if m.wclosed {
			// own side closed while blocked is not generated; treat as closed pipe
			want, wantErr = -1, io.ErrClosedPipe
		} else if m.rclosed {
			want, wantErr = -1, m.rerr
		}
		if wantErr != nil && p.n == 0 && p.out.err == nil && p.out.n == 0 {
			return true // zero-length write on a closed pipe: the statement does not fix the result
		}
		if wantErr != nil {
			if p.out.err == nil {
				viol("write-after-close|outcome=no-error", "step %d: Write returned (%d,nil) although the pipe is closed (rclosed=%v wclosed=%v)", step, p.out.n, m.rclosed, m.wclosed)
				return false
			}
			if m.rclosed && !m.wclosed && m.customR && !sameErr(p.out.err, m.rerr) && !isClosedPipe(p.out.err) {
				viol("write-after-rclose|outcome=wrong-error", "step %d: Write error %v, expected the reader's error %v", step, p.out.err, m.rerr)
				return false
			}
			// bytes accepted before the close are whatever was written
			if p.out.n < 0 || p.out.n > p.n {
				viol("write|outcome=bad-count", "step %d: Write returned n=%d for %d bytes", step, p.out.n, p.n)
				return false
			}
			m.wpos = p.base + uint64(p.out.n)
			return true
		}
		if p.out.err != nil || p.out.n != want {
			viol("write|outcome=short-or-error", "step %d: Write(%d) returned (%d,%v), expected (%d,nil)", step, p.n, p.out.n, p.out.err, want)
			return false
		}
		m.wpos = p.base + uint64(p.n)
		return true
	}
	finishReader := func(p *pending, step int) bool {
		if m.rclosed && p.n == 0 && p.out.n == 0 {
			return true
		}
		if m.rclosed {
			if p.out.err == nil || p.out.n != 0 {
				viol("read-after-rclose|outcome=no-error", "step %d: Read returned (%d,%v) after the reader was closed", step, p.out.n, p.out.err)
				return false
			}
			return true
		}
		if p.n == 0 {
			var wantErr error
			if m.buffered() == 0 && m.wclosed {
				wantErr = m.werr
			}
			if p.out.n != 0 || !sameErr(p.out.err, wantErr) {
				viol("read0|outcome=wrong", "step %d: Read(0 bytes) returned (%d,%v), expected (0,%v) with %d buffered, wclosed=%v", step, p.out.n, p.out.err, wantErr, m.buffered(), m.wclosed)
				return false
			}
			return true
		}
		if m.buffered() == 0 {
			// must be the writer's error
			if !m.wclosed {
				viol("read|outcome=returned-on-empty", "step %d: Read returned (%d,%v) on an empty, open pipe", step, p.out.n, p.out.err)
				return false
			}
			if p.out.n != 0 || !sameErr(p.out.err, m.werr) {
				viol("read-after-wclose|outcome=wrong-error", "step %d: Read on drained closed pipe returned (%d,%v), expected (0,%v)", step, p.out.n, p.out.err, m.werr)
				return false
			}
			return true
		}
		max := p.n
		if m.buffered() < max {
			max = m.buffered()
		}
		if p.out.err != nil || p.out.n < 1 || p.out.n > max {
			sig := "read|outcome=bad-count"
			if m.wclosed && p.out.err != nil {
				sig = "read-after-wclose|outcome=error-before-drain"
			}
			viol(sig, "step %d: Read(%d) with %d buffered returned (%d,%v), expected 1..%d bytes", step, p.n, m.buffered(), p.out.n, p.out.err, max)
			return false
		}
		if bad := checkPos(p.out.buf[:p.out.n], prog.Seed, m.rpos); bad >= 0 {
			viol("read|outcome=wrong-bytes", "step %d: Read returned wrong data at stream position %d (capacity %d, wpos %d, rpos %d)", step, m.rpos+uint64(bad), m.cap, m.wpos, m.rpos)
			return false
		}
		if (m.rpos+uint64(p.out.n))/uint64(m.cap) != m.rpos/uint64(m.cap) {
			wraps++
		}
		m.rpos += uint64(p.out.n)
		return true
	}

	// settleBlockedWriter: after progress on the read side, the parked writer must have advanced.
	settleBlockedWriter := func(step int) bool {
		if pw == nil {
			return true
		}
		fin, parked := gstate.Settle(pw.done, pw.marker, settleWatchdog)
		if !fin && !parked {
			r.Inconcl("watchdog while settling blocked writer")
			return false
		}
		// how much should the writer have pushed in by now
		remaining := pw.n - pwAccepted(pw, m)
		room := m.cap - m.buffered()
		if m.rclosed || m.wclosed {
			if !fin {
				r.Count("lost_wakeup_witness", 1)
				viol("blocked-write|outcome=not-woken-by-close", "step %d: writer parked in Write is still parked in sync.Cond.Wait after the %s side was closed", step, map[bool]string{true: "reader", false: "writer"}[m.rclosed])
				return false
			}
			ok := finishWriter(pw, step)
			pw = nil
			r.Count("writer_wakeups_by_close", 1)
			return ok
		}
		push := remaining
		if room < push {
			push = room
		}
		if push == remaining {
			if !fin {
				viol("blocked-write|outcome=lost-wakeup", "step %d: buffer has room for the rest of the blocked Write (%d bytes, room %d) but the writer is still parked in sync.Cond.Wait", step, remaining, room)
				r.Count("lost_wakeup_witness", 1)
				return false
			}
			ok := finishWriter(pw, step)
			pw = nil
			r.Count("writer_wakeups", 1)
			return ok
		}
		// still blocked: it must have filled the buffer completely
		if fin {
			viol("blocked-write|outcome=returned-early", "step %d: Write(%d) returned (%d,%v) although only %d of its bytes fit", step, pw.n, pw.out.n, pw.out.err, pwAccepted(pw, m)+push)
			return false
		}
		if push > 0 {
			r.Count("writer_wakeups", 1)
		}
		m.wpos += uint64(push)
		n, err := rd.Buffered()
		if err != nil || n != m.cap {
			viol("blocked-write|outcome=blocked-while-not-full", "step %d: writer is parked but Buffered()=(%d,%v), capacity %d", step, n, err, m.cap)
			return false
		}
		return true
	}

	nblocks := 0
	for step, op := range prog.Ops {
		switch op.Kind {
		case opWrite:
			if pw != nil {
				continue
			}
			if pr != nil && op.N > m.cap {
				op.N = m.cap // keep the outcome schedule-independent while the reader is parked
			}
			b := make([]byte, op.N)
			fillPos(b, prog.Seed, m.wpos)
			p := &pending{done: make(chan struct{}), out: &opResult{}, n: op.N, base: m.wpos, marker: "ppkg.c09WriteHelper"}
			go c09WriteHelper(wr, b, p.out, p.done)
			fin, parked := gstate.Settle(p.done, p.marker, settleWatchdog)
			if !fin && !parked {
				r.Inconcl("watchdog while settling Write")
				abort()
				return
			}
			closed := m.rclosed || m.wclosed
			room := m.cap - m.buffered()
			shouldBlock := !closed && op.N > 0 && op.N > room
			if pr != nil && !closed && op.N > 0 {
				// the reader is parked on an empty pipe and op.N <= capacity (clamped above): the write cannot
				// block whatever the reader does, and the progress must wake the reader.
				if !fin {
					viol("write|outcome=blocked-unexpectedly", "step %d: Write(%d) into an empty pipe of capacity %d is parked in sync.Cond.Wait", step, op.N, m.cap)
					abort()
					return
				}
				if !finishWriter(p, step) {
					abort()
					return
				}
				rf, rp := gstate.Settle(pr.done, pr.marker, settleWatchdog)
				if !rf && !rp {
					r.Inconcl("watchdog while settling woken reader")
					abort()
					return
				}
				if !rf {
					r.Count("lost_wakeup_witness", 1)
					viol("blocked-read|outcome=lost-wakeup", "step %d: %d bytes were written but the parked reader is still parked in sync.Cond.Wait", step, op.N)
					abort()
					return
				}
				r.Count("reader_wakeups", 1)
				ok := finishReader(pr, step)
				pr = nil
				if !ok {
					abort()
					return
				}
				continue
			}
			if shouldBlock {
				if fin {
					viol("write|outcome=did-not-block", "step %d: Write(%d) with only %d bytes of room returned (%d,%v) instead of blocking", step, op.N, room, p.out.n, p.out.err)
					abort()
					return
				}
				nblocks++
				r.Count("writer_blocks", 1)
				pw = p
				m.wpos += uint64(room)
				n, err := rd.Buffered()
				if err != nil || n != m.cap {
					viol("blocked-write|outcome=blocked-while-not-full", "step %d: writer is parked but Buffered()=(%d,%v), capacity %d", step, n, err, m.cap)
					abort()
					return
				}
				continue
			}
			if !fin {
				viol("write|outcome=blocked-unexpectedly", "step %d: Write(%d) is parked in sync.Cond.Wait although the model says it cannot block (room %d, rclosed=%v, wclosed=%v)", step, op.N, room, m.rclosed, m.wclosed)
				abort()
				return
			}
			if !finishWriter(p, step) {
				abort()
				return
			}
		case opRead:
			if pr != nil {
				continue
			}
			b := make([]byte, op.N)
			p := &pending{done: make(chan struct{}), out: &opResult{}, n: op.N, marker: "ppkg.c09ReadHelper"}
			go c09ReadHelper(rd, b, p.out, p.done)
			fin, parked := gstate.Settle(p.done, p.marker, settleWatchdog)
			if !fin && !parked {
				r.Inconcl("watchdog while settling Read")
				abort()
				return
			}
			shouldBlock := !m.rclosed && op.N > 0 && m.buffered() == 0 && !m.wclosed
			if shouldBlock {
				if fin {
					viol("read|outcome=did-not-block", "step %d: Read(%d) on an empty open pipe returned (%d,%v) instead of blocking", step, op.N, p.out.n, p.out.err)
					abort()
					return
				}
				nblocks++
				r.Count("reader_blocks", 1)
				pr = p
				continue
			}
			if !fin {
				viol("read|outcome=blocked-unexpectedly", "step %d: Read(%d) is parked in sync.Cond.Wait with %d bytes buffered (rclosed=%v wclosed=%v)", step, op.N, m.buffered(), m.rclosed, m.wclosed)
				abort()
				return
			}
			if !finishReader(p, step) {
				abort()
				return
			}
			if !settleBlockedWriter(step) {
				abort()
				return
			}
		case opBuffered:
			if pw != nil || pr != nil {
				continue
			}
			n, err := rd.Buffered()
			var wn int
			var werr error
			switch {
			case m.rclosed:
				wn, werr = 0, m.rerr
			case m.buffered() != 0:
				wn = m.buffered()
			default:
				werr = nil
				if m.wclosed {
					werr = m.werr
				}
			}
			if n != wn || (werr == nil) != (err == nil) {
				viol("buffered|outcome=wrong", "step %d: Buffered()=(%d,%v), model (%d,%v)", step, n, err, wn, werr)
				abort()
				return
			}
		case opAvailable:
			if pw != nil || pr != nil {
				continue
			}
			n, err := wr.Available()
			var wn int
			var werr error
			switch {
			case m.wclosed:
				werr = m.werr
			case m.rclosed:
				werr = m.rerr
			default:
				wn = m.cap - m.buffered()
			}
			if n != wn || (werr == nil) != (err == nil) {
				viol("available|outcome=wrong", "step %d: Available()=(%d,%v), model (%d,%v)", step, n, err, wn, werr)
				abort()
				return
			}
		case opWClose:
			if pw != nil {
				continue // the single writer is inside Write
			}
			var e error
			if op.Custom {
				e = errCustomW
				wr.CloseWithError(e)
			} else {
				wr.Close()
			}
			if !m.wclosed {
				m.wclosed = true
				m.werr = io.EOF
				if op.Custom {
					m.werr = errCustomW
					m.customW = true
				}
			}
			if pr != nil {
				rf, rp := gstate.Settle(pr.done, pr.marker, settleWatchdog)
				if !rf && !rp {
					r.Inconcl("watchdog after writer close")
					abort()
					return
				}
				if !rf {
					r.Count("lost_wakeup_witness", 1)
					viol("blocked-read|outcome=not-woken-by-close", "step %d: reader parked in Read is still parked in sync.Cond.Wait after the writer closed", step)
					abort()
					return
				}
				r.Count("reader_wakeups_by_close", 1)
				ok := finishReader(pr, step)
				pr = nil
				if !ok {
					abort()
					return
				}
			}
		case opRClose:
			if op.FileFirst && f != nil && !m.rclosed {
				f.Close()
				r.Count("reader_closes_after_the_backing_file_was_closed", 1)
				if pw != nil {
					r.Count("reader_closes_after_the_backing_file_was_closed_with_a_parked_writer", 1)
				}
			}
			if op.Custom {
				rd.CloseWithError(errCustomR)
			} else {
				rd.Close()
			}
			if !m.rclosed {
				m.rclosed = true
				m.rerr = io.ErrClosedPipe
				if op.Custom {
					m.rerr = errCustomR
					m.customR = true
				}
			}
			if pr != nil {
				rf, rp := gstate.Settle(pr.done, pr.marker, settleWatchdog)
				if !rf && !rp {
					r.Inconcl("watchdog after reader close")
					abort()
					return
				}
				if !rf {
					r.Count("lost_wakeup_witness", 1)
					viol("blocked-read|outcome=not-woken-by-own-close", "step %d: Read is still parked after the reader side was closed", step)
					abort()
					return
				}
				ok := finishReader(pr, step)
				pr = nil
				if !ok {
					abort()
					return
				}
			}
			if !settleBlockedWriter(step) {
				abort()
				return
			}
		}
	}
	abort()
	if pw != nil {
		<-pw.done
	}
	if pr != nil {
		<-pr.done
	}
	r.Count("script_ops", int64(len(prog.Ops)))
	r.Count("script_bytes", int64(m.wpos))
	r.Count("ring_wraps", int64(wraps))
	r.Case(fmt.Sprintf("script|%s|cap%d|blocks%d|wraps%d|rc%v|wc%v", prog.Backend, prog.Cap, minInt(nblocks, 6), minInt(int(wraps), 6), m.rclosed, m.wclosed))
}

// pwAccepted: bytes of the pending write already inside the model's wpos.
func pwAccepted(p *pending, m *pipeModel) int { return int(m.wpos - p.base) }

func minInt(a, b int) int {
	if a < b {
		return a
	}
	return b
}

func genScript(rng *prng.R, backend string, capacity int) *c09prog {
	p := &c09prog{Backend: backend, Cap: capacity, Seed: rng.U64() >> 8}
	n := rng.Range(8, 60)
	if backend == "file" {
		n = rng.Range(6, 24)
	}
	sizes := []int{0, 1, 2, capacity - 1, capacity, capacity + 1, 2*capacity + 3, capacity / 2, capacity/2 + 1, 17, 4095, 4096, 4097}
	closeAt := -1
	if rng.Chance(3, 4) {
		closeAt = rng.Intn(n)
	}
	neverDrain := rng.Chance(1, 3) // keep the buffer non-empty so positions wrap around the ring
	for i := 0; i < n; i++ {
		var op pipeOp
		switch k := rng.Intn(20); {
		case i == closeAt:
			op.Kind = opKind(rng.Pick(int(opWClose), int(opRClose)))
			op.Custom = rng.Bool()
		case k < 8:
			op.Kind = opWrite
			op.N = sizes[rng.Intn(len(sizes))]
			if rng.Chance(1, 3) {
				op.N = rng.Range(1, capacity)
			}
		case k < 16:
			op.Kind = opRead
			op.N = sizes[rng.Intn(len(sizes))]
			if neverDrain {
				op.N = rng.Pick(1, 17, capacity/2-1, capacity/3)
			} else if rng.Chance(1, 3) {
				op.N = rng.Range(1, capacity)
			}
		case k < 18:
			op.Kind = opBuffered
		case k < 19:
			op.Kind = opAvailable
		default:
			op.Kind = opKind(rng.Pick(int(opWClose), int(opRClose)))
			op.Custom = rng.Bool()
			if closeAt >= 0 && i < closeAt {
				op.Kind = opBuffered
			}
		}
		if backend == "file" && op.Kind == opRClose {
			op.FileFirst = rng.Bool()
		}
		op.Name = opNames[op.Kind]
		p.Ops = append(p.Ops, op)
	}
	return p
}

// genFailedCleanupScript is the fixed shape "the writer is parked on a full ring (optionally the ring has wrapped), the
// backing file is closed by its owner, then the reader closes": the close must wake the writer although the pipe's own
// clean-up fails. A few ordinary operations follow the close.
func genFailedCleanupScript(rng *prng.R, capacity int) *c09prog {
	p := &c09prog{Backend: "file", Cap: capacity, Seed: rng.U64() >> 8}
	add := func(k opKind, n int, custom, ff bool) {
		p.Ops = append(p.Ops, pipeOp{Kind: k, Name: opNames[k], N: n, Custom: custom, FileFirst: ff})
	}
	if rng.Bool() {
		add(opWrite, capacity/2+rng.Intn(4096), false, false)
		add(opRead, 4096+rng.Intn(4096), false, false)
	}
	add(opWrite, capacity+1+rng.Intn(8192), false, false)
	add(opBuffered, 0, false, false)
	add(opRClose, 0, rng.Bool(), true)
	add(opWrite, 1+rng.Intn(100), false, false)
	add(opRead, 1+rng.Intn(100), false, false)
	add(opAvailable, 0, false, false)
	add(opWClose, 0, rng.Bool(), false)
	add(opWrite, 1, false, false)
	return p
}

func kindFromName(n string) opKind {
	for i, s := range opNames {
		if s == n {
			return opKind(i)
		}
	}
	return opBuffered
}

type c09extra struct {
	File bool `json:"file"`
}

func c09scriptChild(raw json.RawMessage, scratch string) {
	var ex c09extra
	a := wk.ParseBatchArg(raw, &ex)
	r := wk.ChildRes("C09")
	base := prng.New(a.Seed).Split(0xC09)
	for i := a.Start; i < a.End; i++ {
		rng := base.At(uint64(i))
		var prog *c09prog
		if ex.File && i%4 == 1 {
			prog = genFailedCleanupScript(rng, rng.Pick(4<<20, 4<<20, 8<<20))
		} else if ex.File {
			prog = genScript(rng, "file", rng.Pick(4<<20, 4<<20, 8<<20))
		} else {
			prog = genScript(rng, "mem", rng.Pick(4096, 4096, 8192, 12288))
		}
		wk.ChildCase(i, prog)
		runScript(r, prog, scratch)
		if i == a.Start {
			sp := *prog
			if len(sp.Ops) > 10 {
				sp.Ops = sp.Ops[:10]
			}
			r.Sample(map[string]interface{}{"mode": "scripted", "program_first_ops": sp, "total_ops": len(prog.Ops)})
		}
	}
	wk.ChildDone(r)
}

// ---- Mode B: free-running writer and reader under the race detector

type freeCase struct {
	Backend   string `json:"backend"`
	Cap       int    `json:"capacity"`
	Seed      uint64 `json:"seed"`
	Total     int    `json:"total_bytes"`
	CloseBy   string `json:"close_by"` // writer | reader
	CloseAt   int    `json:"close_after_bytes"`
	CustomErr bool   `json:"custom_err"`
}

//go:noinline
func c09FreeWriter(w pipe.Writer, fc *freeCase, rng *prng.R, written *uint64, werrOut *error, wg *sync.WaitGroup) {
	defer wg.Done()
	var pos uint64
	for int(pos) < fc.Total {
		n := rng.Pick(1, 7, fc.Cap-1, fc.Cap, fc.Cap+1, rng.Range(1, 3*fc.Cap/2))
		if fc.Backend == "file" {
			n = rng.Pick(1, 4097, fc.Cap/3, fc.Cap-1, fc.Cap+1)
		}
		if int(pos)+n > fc.Total {
			n = fc.Total - int(pos)
		}
		b := make([]byte, n)
		fillPos(b, fc.Seed, pos)
		k, err := w.Write(b)
		pos += uint64(k)
		if err != nil {
			*werrOut = err
			break
		}
		if fc.CloseBy == "writer" && int(pos) >= fc.CloseAt {
			break
		}
		if rng.Chance(1, 5) {
			time.Sleep(time.Duration(rng.Intn(200)) * time.Microsecond)
		}
	}
	*written = pos
	if fc.CustomErr {
		w.CloseWithError(errCustomW)
	} else {
		w.Close()
	}
}

//go:noinline
func c09FreeReader(rd pipe.Reader, fc *freeCase, rng *prng.R, got *uint64, rerrOut *error, bad *int64, wg *sync.WaitGroup) {
	defer wg.Done()
	var pos uint64
	*bad = -1
	for {
		n := rng.Pick(1, 5, fc.Cap-1, fc.Cap, fc.Cap+1, rng.Range(1, 2*fc.Cap))
		if fc.Backend == "file" {
			n = rng.Pick(1, 4096, fc.Cap/2+1, fc.Cap+1)
		}
		b := make([]byte, n)
		k, err := rd.Read(b)
		if k > 0 {
			if i := checkPos(b[:k], fc.Seed, pos); i >= 0 && *bad < 0 {
				*bad = int64(pos) + int64(i)
			}
			pos += uint64(k)
			atomic.StoreUint64(got, pos)
		}
		if err != nil {
			*rerrOut = err
			break
		}
		if fc.CloseBy == "reader" && int(pos) >= fc.CloseAt {
			if fc.CustomErr {
				rd.CloseWithError(errCustomR)
			} else {
				rd.Close()
			}
			// reads after close fail and never block
			if _, err := rd.Read(make([]byte, 8)); err == nil {
				*bad = -2
			}
			break
		}
		if rng.Chance(1, 5) {
			time.Sleep(time.Duration(rng.Intn(200)) * time.Microsecond)
		}
	}
	*got = pos
}

var freeWatchdogs int32

func runFree(r *res.R, fc *freeCase, scratch string) {
	var rd pipe.Reader
	var wr pipe.Writer
	if fc.Backend == "file" {
		f, err := os.OpenFile(filepath.Join(scratch, fmt.Sprintf("fpipe-%d.dat", fc.Seed)), os.O_CREATE|os.O_RDWR|os.O_TRUNC, 0600)
		if err != nil {
			r.Inconcl("cannot create backing file")
			return
		}
		defer os.Remove(f.Name())
		rd, wr = pipe.NewFilePipe(fc.Cap, f)
	} else {
		rd, wr = pipe.NewSize(fc.Cap)
	}
	var wg sync.WaitGroup
	var written, got uint64
	var werr, rerr error
	var bad int64
	wg.Add(2)
	rngW, rngR := prng.New(fc.Seed).Split(1), prng.New(fc.Seed).Split(2)
	go c09FreeWriter(wr, fc, rngW, &written, &werr, &wg)
	go c09FreeReader(rd, fc, rngR, &got, &rerr, &bad, &wg)
	done := make(chan struct{})
	go func() { wg.Wait(); close(done) }()
	select {
	case <-done:
	case <-time.After(20 * time.Second):
		atomic.AddInt32(&freeWatchdogs, 1)
		sw, _ := gstate.Of("ppkg.c09FreeWriter")
		sr, _ := gstate.Of("ppkg.c09FreeReader")
		if (sw == gstate.Parked || sw == gstate.Gone) && (sr == gstate.Parked || sr == gstate.Gone) {
			r.Violation("C09|"+fc.Backend+"|free|outcome=deadlock", fmt.Sprintf("writer %s and reader %s: both sides parked in sync.Cond.Wait / gone, nobody can wake them", sw, sr), fc)
		} else if sw == gstate.Gone && sr != gstate.Parked && sr != gstate.Gone && atomic.LoadUint64(&got) == written && fc.CloseBy == "writer" {
			// the writer has closed, the reader has drained every byte that was written, and 20 s later its Read calls
			// still come back without the writer's error: "... then gets the writer's error" never happens
			r.Violation("C09|"+fc.Backend+"|free|outcome=no-error-after-writer-close", fmt.Sprintf("writer closed after %d bytes, reader has received all %d, and its reads keep returning without an error (reader %s)", written, written, sr), fc)
			atomic.StoreInt32(&freeWatchdogs, 2)
		} else {
			r.Inconcl(fmt.Sprintf("free-running watchdog: writer %s reader %s", sw, sr))
		}
		rd.Close()
		wr.Close()
		<-done
		return
	}
	viol := func(sig, format string, a ...interface{}) {
		r.Violation("C09|"+fc.Backend+"|free|"+sig, fmt.Sprintf(format, a...), fc)
	}
	if bad >= 0 {
		viol("outcome=wrong-bytes", "reader observed a wrong byte at stream position %d (capacity %d)", bad, fc.Cap)
	}
	if bad == -2 {
		viol("outcome=read-after-rclose-succeeds", "Read after reader Close returned no error")
	}
	if fc.CloseBy == "writer" {
		// writer closed after `written` bytes: reader must drain exactly those and then see the writer's error
		want := error(io.EOF)
		if fc.CustomErr {
			want = errCustomW
		}
		if got != written {
			viol("outcome=not-drained-before-error", "writer wrote %d bytes then closed; reader received %d bytes before its error %v", written, got, rerr)
		} else if !sameErr(rerr, want) {
			viol("outcome=wrong-writer-error", "after draining, reader got error %v, expected %v", rerr, want)
		}
	} else {
		if got > written {
			viol("outcome=more-than-written", "reader received %d bytes, writer wrote %d", got, written)
		}
		if int(written) < fc.Total && werr == nil {
			viol("outcome=writer-stopped-without-error", "writer stopped at %d of %d bytes without an error after reader close", written, fc.Total)
		}
	}
	r.Count("free_bytes", int64(got))
	r.Case(fmt.Sprintf("free|%s|cap%d|%s|custom%v|wraps%d", fc.Backend, fc.Cap, fc.CloseBy, fc.CustomErr, minInt(int(got)/fc.Cap, 8)))
}

func c09freeChild(raw json.RawMessage, scratch string) {
	var ex c09extra
	a := wk.ParseBatchArg(raw, &ex)
	r := wk.ChildRes("C09")
	base := prng.New(a.Seed).Split(0xF09)
	for i := a.Start; i < a.End; i++ {
		rng := base.At(uint64(i))
		fc := &freeCase{Backend: "mem", Cap: rng.Pick(4096, 8192, 12288), Seed: rng.U64() >> 8, CloseBy: rng.PickS("writer", "reader"), CustomErr: rng.Bool()}
		if ex.File {
			fc.Backend = "file"
			fc.Cap = 4 << 20
		}
		fc.Total = fc.Cap * rng.Range(1, 12)
		if ex.File {
			fc.Total = fc.Cap*rng.Range(1, 3) + rng.Intn(5000)
		}
		fc.CloseAt = rng.Intn(fc.Total + 1)
		if atomic.LoadInt32(&freeWatchdogs) >= 2 {
			r.Note("free-running batch cut short after 2 watchdog verdicts")
			break
		}
		wk.ChildCase(i, fc)
		if !ex.File && i%4 == 3 {
			// several pipes are alive in one process (one per source), and pipes of the same capacity have come and gone
			// before them (earlier sync rounds): this pipe runs next to a twin of the same capacity with other content
			twin := *fc
			twin.Seed = rng.U64() >> 8
			twin.CloseBy, twin.CloseAt = rng.PickS("writer", "reader"), rng.Intn(twin.Total+1)
			var pair sync.WaitGroup
			pair.Add(1)
			go func() { defer pair.Done(); runFree(r, &twin, scratch) }()
			runFree(r, fc, scratch)
			pair.Wait()
			r.Count("free_pipe_pairs_alive_together", 1)
		} else {
			runFree(r, fc, scratch)
		}
		if i == a.Start {
			r.Sample(map[string]interface{}{"mode": "free-running", "case": fc})
		}
	}
	wk.ChildDone(r)
}

func c09(c *wk.Ctx) {
	r := c.R
	r.Rule = "Mode A: seeded single-threaded programs of Write/Read/Buffered/Available/Close ops (chunks 0,1,cap-1,cap,cap+1,2cap+3,random; close at any step by either side, nil/custom error; on the file backend half of the reader closes - and a fixed program shape with the writer parked on a full ring - come after the owner closed the backing file, so the pipe's own clean-up fails) executed one op at a time on helper goroutines; a byte-FIFO model predicts result-or-blocks, blocking/waking decided by goroutine state (parked in sync.Cond.Wait) not by timers; position-coded data. " +
		"Mode B: free-running writer/reader goroutines with random chunking/yields and a close, under the race detector; stream-prefix + drain-before-error oracle; every fourth memory case runs next to a twin pipe of the same capacity with other content (after earlier pipes of that capacity were closed). Long haul: 2^32 + 3 MiB bytes through one memory pipe that is never empty (capacities 192 KiB / 1 MiB / 12 KiB), every 8 bytes carrying their own stream offset. distinct = (backend, capacity, #blocks, #ring wraps, close kinds)"
	if c.Replay != "" {
		replayC09(c)
		return
	}
	onDeath := func(kind string) func(d wk.Death) {
		return func(d wk.Death) {
			if d.Result.TimedOut {
				r.Inconcl("C09 " + kind + " child watchdog fired: " + wk.Tail(d.Result.Stderr, 300))
				return
			}
			r.Violationf("C09|"+kind+"|outcome=process-died", json.RawMessage(d.Desc), "pipe %s case killed the process (exit %d): %s", kind, d.Result.Exit, wk.Tail(d.Result.Stderr, 800))
		}
	}
	nMem, nFile := c.N(2400, 120000), c.N(24, 720)
	nFreeMem, nFreeFile := c.N(240, 12000), c.N(8, 120)
	type job struct {
		name       string
		start, end int
		file       bool
	}
	var jobs []job
	split := func(name string, n, parts int, file bool) {
		for p := 0; p < parts; p++ {
			jobs = append(jobs, job{name, n * p / parts, n * (p + 1) / parts, file})
		}
	}
	split("c09script", nMem, 6, false)
	split("c09script", nFile, 3, true)
	split("c09free", nFreeMem, 4, false)
	split("c09free", nFreeFile, 2, true)
	nLong := c.N(2, 6)
	for k := 0; k < nLong; k++ {
		jobs = append(jobs, job{"c09long", 5000000 + k, 5000000 + k + 1, false})
	}
	wk.Parallel(len(jobs), 15, func(i int) {
		j := jobs[i]
		// file cases use distinct index ranges so seeds differ from mem cases
		off := 0
		if j.file {
			off = 1000000
		}
		wk.RunBatch(c, j.name, off+j.start, off+j.end, c09extra{File: j.file}, 25*time.Minute, onDeath(j.name))
	})
	r.Floor("script_ops", 10000)
	r.Floor("writer_blocks", 100)
	r.Floor("reader_blocks", 100)
	r.Floor("writer_wakeups", 50)
	r.Floor("reader_wakeups", 50)
	r.Floor("ring_wraps", 50)
	r.Floor("free_bytes", 1000000)
	r.Floor("free_pipe_pairs_alive_together", 30)
	r.Floor("reader_closes_after_the_backing_file_was_closed_with_a_parked_writer", 3)
	r.Floor("long_haul_gib_streamed", 8)
	r.Assume("blocked/woken is read from runtime.Stack goroutine states ([sync.Cond.Wait]); one writer and one reader goroutine as in the property")
}

func replayC09(c *wk.Ctx) {
	b, err := os.ReadFile(c.Replay)
	if err != nil {
		c.R.Inconcl("cannot read replay file: " + err.Error())
		return
	}
	var f struct {
		Case json.RawMessage `json:"case"`
	}
	json.Unmarshal(b, &f)
	var prog c09prog
	if json.Unmarshal(f.Case, &prog) == nil && len(prog.Ops) > 0 {
		for i := range prog.Ops {
			prog.Ops[i].Kind = kindFromName(prog.Ops[i].Name)
		}
		runScript(c.R, &prog, c.Scratch)
		return
	}
	var fc freeCase
	if json.Unmarshal(f.Case, &fc) == nil && fc.Total > 0 {
		runFree(c.R, &fc, c.Scratch)
		return
	}
	c.R.Inconcl("replay file holds no C09 case")
}
