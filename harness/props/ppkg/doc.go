// Package ppkg holds the property monitors that only need pkg/... of the repository.
package ppkg
