package ppkg

import (
	"bytes"
	"encoding/json"
	"errors"
	"fmt"
	"os"
	"path/filepath"
	"runtime"
	"sync"
	"sync/atomic"
	"time"

	"github.com/alibaba/RedisShake/pkg/libs/io/backlog"
	"github.com/anishathalye/porcupine"

	"verif/harness/lib/gstate"
	"verif/harness/lib/prng"
	"verif/harness/lib/res"
	"verif/harness/lib/wk"
)

func init() {
	wk.Register("C18", c18)
	wk.RegisterChild("c18script", c18scriptChild)
	wk.RegisterChild("c18hist", c18histChild)
}

type blOp struct {
	Name      string `json:"op"`                                  // Write ReadAt DataRange NewReader RRead SeekTo IsValid Close WaitAt
	FileFirst bool   `json:"backing_file_closed_first,omitempty"` // Close: the owner of the backing file closed it before the backlog
	N         int    `json:"n,omitempty"`
	Off       int64  `json:"off,omitempty"` // absolute for ReadAt/SeekTo when Rel==""
	Rel       string `json:"rel,omitempty"` // "wpos" | "rpos": Off is relative to that
	Custom    bool   `json:"custom_err,omitempty"`
}

type c18prog struct {
	Backend string `json:"backend"`
	Cap     int    `json:"capacity"`
	Seed    uint64 `json:"seed"`
	Ops     []blOp `json:"ops"`
}

func isInvalidOffset(err error) bool {
	return err != nil && (errors.Is(err, backlog.ErrInvalidOffset) || containsStr(err.Error(), "invalid offset"))
}

type blWaiter struct {
	done   chan struct{}
	marker string
	off    uint64
	n      int
	buf    []byte
	rn     int
	rerr   error
}

//go:noinline
func c18Wait0(bl *backlog.Backlog, w *blWaiter) {
	w.rn, w.rerr = bl.ReadAt(w.buf, w.off)
	close(w.done)
}

//go:noinline
func c18Wait1(bl *backlog.Backlog, w *blWaiter) {
	w.rn, w.rerr = bl.ReadAt(w.buf, w.off)
	close(w.done)
}

//go:noinline
func c18Wait2(bl *backlog.Backlog, w *blWaiter) {
	w.rn, w.rerr = bl.ReadAt(w.buf, w.off)
	close(w.done)
}

//go:noinline
func c18Inline(bl *backlog.Backlog, w *blWaiter) {
	w.rn, w.rerr = bl.ReadAt(w.buf, w.off)
	close(w.done)
}

func runBacklogScript(r *res.R, prog *c18prog, scratch string) {
	var bl *backlog.Backlog
	var backing *os.File
	if prog.Backend == "file" {
		f, err := os.OpenFile(filepath.Join(scratch, fmt.Sprintf("bl-%d.dat", prog.Seed)), os.O_CREATE|os.O_RDWR|os.O_TRUNC, 0600)
		if err != nil {
			r.Inconcl("cannot create backing file: " + err.Error())
			return
		}
		defer os.Remove(f.Name())
		backing = f
		bl = backlog.NewFileBacklog(prog.Cap, f)
	} else {
		bl = backlog.NewSize(prog.Cap)
	}
	capU := uint64(prog.Cap)
	var wpos uint64
	closed := false
	var waiters [3]*blWaiter
	var rdr *backlog.Reader
	var rdrSeek uint64
	viol := func(sig, format string, a ...interface{}) {
		r.Violation("C18|"+prog.Backend+"|"+sig, fmt.Sprintf(format, a...), prog)
	}
	abort := func() {
		bl.Close()
		for _, w := range waiters {
			if w != nil {
				select {
				case <-w.done:
				case <-time.After(5 * time.Second):
				}
			}
		}
	}
	rposOf := func() uint64 {
		if wpos >= capU {
			return wpos - capU
		}
		return 0
	}
	// checkRead validates a completed ReadAt(off, n bytes) against the model at the current wpos
	checkRead := func(step int, what string, off uint64, n int, buf []byte, rn int, rerr error) bool {
		if closed {
			if rerr == nil && n > 0 {
				viol(what+"|outcome=read-after-close-succeeds", "step %d: %s(off=%d) returned (%d,nil) after Close", step, what, off, rn)
				return false
			}
			return true
		}
		if n == 0 {
			if rn != 0 || rerr != nil {
				viol(what+"|outcome=zero-length-read-wrong", "step %d: zero-length %s returned (%d,%v)", step, what, rn, rerr)
				return false
			}
			return true
		}
		if off > wpos || off+capU < wpos {
			if !isInvalidOffset(rerr) || rn != 0 {
				where := "beyond-write-position"
				if off <= wpos {
					where = "overwritten"
				}
				viol(what+"|outcome=invalid-offset-accepted|where="+where, "step %d: %s(off=%d) with data range [%d,%d] returned (%d,%v), expected invalid-offset error", step, what, off, rposOf(), wpos, rn, rerr)
				return false
			}
			return true
		}
		// valid offset with data available (off < wpos): must return the bytes written at off
		max := uint64(n)
		if wpos-off < max {
			max = wpos - off
		}
		if rerr != nil || rn < 1 || uint64(rn) > max {
			sig := "outcome=bad-count"
			if isInvalidOffset(rerr) {
				sig = "outcome=valid-offset-rejected"
				if off+capU == wpos {
					sig += "|where=oldest-byte"
				}
			}
			viol(what+"|"+sig, "step %d: %s(off=%d,len=%d) with data range [%d,%d] returned (%d,%v), expected 1..%d bytes", step, what, off, n, rposOf(), wpos, rn, rerr, max)
			return false
		}
		if bad := checkPos(buf[:rn], prog.Seed, off); bad >= 0 {
			viol(what+"|outcome=wrong-bytes", "step %d: %s(off=%d) returned other bytes than were written at position %d (capacity %d, wpos %d)", step, what, off, off+uint64(bad), prog.Cap, wpos)
			return false
		}
		return true
	}
	inlineRead := func(step int, what string, off uint64, n int) (ok bool) {
		w := &blWaiter{done: make(chan struct{}), marker: "ppkg.c18Inline", off: off, n: n, buf: make([]byte, n)}
		go c18Inline(bl, w)
		fin, parked := gstate.Settle(w.done, w.marker, settleWatchdog)
		if !fin && !parked {
			r.Inconcl("watchdog while settling backlog read")
			return false
		}
		if !fin {
			viol(what+"|outcome=blocked-unexpectedly", "step %d: %s(off=%d,len=%d) is parked in sync.Cond.Wait; data range [%d,%d], closed=%v", step, what, off, n, rposOf(), wpos, closed)
			bl.Close()
			<-w.done
			return false
		}
		return checkRead(step, what, off, n, w.buf, w.rn, w.rerr)
	}
	settleWaiters := func(step int, cause string) bool {
		for i, w := range waiters {
			if w == nil {
				continue
			}
			fin, parked := gstate.Settle(w.done, w.marker, settleWatchdog)
			if !fin && !parked {
				r.Inconcl("watchdog while settling backlog waiter")
				return false
			}
			if !fin {
				r.Count("lost_wakeup_witness", 1)
				viol("waiter|outcome=not-woken-by-"+cause, "step %d: reader #%d waiting at offset %d is still parked in sync.Cond.Wait after %s (wpos now %d); %d readers were waiting", step, i, w.off, cause, wpos, countWaiters(waiters[:]))
				return false
			}
			r.Count("waiter_wakeups_by_"+cause, 1)
			if closed {
				if w.rerr == nil {
					viol("waiter|outcome=no-error-after-close", "step %d: reader #%d waiting at %d returned (%d,nil) after Close", step, i, w.off, w.rn)
					return false
				}
			} else if !checkRead(step, "WaitAt", w.off, w.n, w.buf, w.rn, w.rerr) {
				return false
			}
			waiters[i] = nil
		}
		return true
	}
	nwaits := 0
	for step, op := range prog.Ops {
		switch op.Name {
		case "Write":
			n := op.N
			if countWaiters(waiters[:]) > 0 && n > prog.Cap {
				n = prog.Cap // keep waiter outcome schedule-independent
			}
			b := make([]byte, n)
			fillPos(b, prog.Seed, wpos)
			k, err := bl.Write(b)
			if closed {
				if err == nil && n > 0 {
					viol("write|outcome=write-after-close-succeeds", "step %d: Write(%d) returned (%d,nil) after Close", step, n, k)
					abort()
					return
				}
				continue
			}
			if err != nil || k != n {
				viol("write|outcome=short-or-error", "step %d: Write(%d) returned (%d,%v)", step, n, k, err)
				abort()
				return
			}
			wpos += uint64(n)
			if n > 0 {
				if !settleWaiters(step, "write") {
					abort()
					return
				}
			}
		case "ReadAt":
			var off uint64
			switch op.Rel {
			case "wpos":
				off = uint64(int64(wpos) + op.Off)
			case "rpos":
				off = uint64(int64(rposOf()) + op.Off)
			case "huge": // offsets far beyond anything ever written: around 2^32, 2^63 and the top of the 64-bit range
				capU := uint64(prog.Cap)
				off = []uint64{^uint64(0), ^uint64(0) - capU + 1 + wpos, ^uint64(0) - capU/2, ^uint64(0) - capU + wpos, 1 << 63, 1<<63 + wpos, 1 << 32, 1<<32 + wpos, wpos + capU, wpos + capU + 1}[int(op.Off)%10]
			default:
				off = uint64(op.Off)
			}
			if int64(off) < 0 && op.Rel != "huge" {
				off = 0
			}
			if off == wpos && op.N > 0 && !closed {
				continue // would wait: that is what WaitAt does
			}
			if !inlineRead(step, "ReadAt", off, op.N) {
				abort()
				return
			}
		case "WaitAt":
			if closed {
				continue
			}
			slot := -1
			for i := range waiters {
				if waiters[i] == nil {
					slot = i
					break
				}
			}
			if slot < 0 {
				continue
			}
			w := &blWaiter{done: make(chan struct{}), marker: fmt.Sprintf("ppkg.c18Wait%d", slot), off: wpos, n: op.N, buf: make([]byte, op.N)}
			if op.N == 0 {
				continue
			}
			switch slot {
			case 0:
				go c18Wait0(bl, w)
			case 1:
				go c18Wait1(bl, w)
			default:
				go c18Wait2(bl, w)
			}
			fin, parked := gstate.Settle(w.done, w.marker, settleWatchdog)
			if !fin && !parked {
				r.Inconcl("watchdog while parking a backlog waiter")
				abort()
				return
			}
			if fin {
				viol("waiter|outcome=did-not-wait", "step %d: ReadAt at the write position %d returned (%d,%v) instead of waiting", step, wpos, w.rn, w.rerr)
				abort()
				return
			}
			waiters[slot] = w
			nwaits++
			r.Count("waits", 1)
			r.Max("max_simultaneous_waiters", int64(countWaiters(waiters[:])))
		case "DataRange":
			rp, wp, err := bl.DataRange()
			if closed {
				continue // not asserted after close (statement is silent)
			}
			if err != nil || wp != wpos || rp != rposOf() {
				viol("datarange|outcome=wrong", "step %d: DataRange()=(%d,%d,%v), expected (%d,%d) = most recent min(total, capacity) bytes", step, rp, wp, err, rposOf(), wpos)
				abort()
				return
			}
		case "NewReader":
			if closed {
				continue
			}
			nr, err := bl.NewReader()
			if err != nil || nr.Offset() != wpos {
				viol("reader|outcome=newreader-wrong", "step %d: NewReader()=(offset %v, %v), expected offset %d", step, nr, err, wpos)
				abort()
				return
			}
			rdr, rdrSeek = nr, wpos
		case "SeekTo":
			if rdr == nil || closed {
				continue
			}
			var off uint64
			switch op.Rel {
			case "wpos":
				off = uint64(int64(wpos) + op.Off)
			default:
				off = uint64(int64(rposOf()) + op.Off)
			}
			if int64(off) < 0 {
				off = 0
			}
			got := rdr.SeekTo(off)
			rdrSeek = off
			want := off >= rposOf() && off <= wpos
			if got != want || rdr.Offset() != off {
				viol("reader|outcome=seekto-validity-wrong", "step %d: SeekTo(%d)=%v offset=%d with data range [%d,%d], expected %v", step, off, got, rdr.Offset(), rposOf(), wpos, want)
				abort()
				return
			}
		case "IsValid":
			if rdr == nil || closed {
				continue
			}
			got := rdr.IsValid()
			want := rdrSeek >= rposOf() && rdrSeek <= wpos
			if got != want {
				viol("reader|outcome=isvalid-wrong", "step %d: reader at %d IsValid()=%v with data range [%d,%d]", step, rdrSeek, got, rposOf(), wpos)
				abort()
				return
			}
		case "RRead":
			if rdr == nil {
				continue
			}
			if rdrSeek == wpos && op.N > 0 && !closed {
				continue // would wait
			}
			buf := make([]byte, op.N)
			done := make(chan struct{})
			var rn int
			var rerr error
			go func() { rn, rerr = rdr.Read(buf); close(done) }()
			select {
			case <-done:
			case <-time.After(settleWatchdog):
				r.Inconcl("Reader.Read did not return (watchdog)")
				abort()
				return
			}
			if !checkRead(step, "Reader.Read", rdrSeek, op.N, buf, rn, rerr) {
				abort()
				return
			}
			if rerr == nil {
				rdrSeek += uint64(rn)
				if rdr.Offset() != rdrSeek {
					viol("reader|outcome=offset-not-advanced", "step %d: Reader offset %d after reading %d bytes, expected %d", step, rdr.Offset(), rn, rdrSeek)
					abort()
					return
				}
			}
		case "Close":
			if op.FileFirst && backing != nil {
				// shutdown order of a careless owner: the file goes first, so the backlog's own clean-up of it fails -
				// the readers parked on the backlog must be released all the same
				backing.Close()
				r.Count("closes_after_the_backing_file_was_closed", 1)
			}
			if op.Custom {
				bl.CloseWithError(errCustomW)
			} else {
				bl.Close()
			}
			closed = true
			if !settleWaiters(step, "close") {
				abort()
				return
			}
		}
	}
	abort()
	r.Count("script_ops", int64(len(prog.Ops)))
	r.Count("script_bytes", int64(wpos))
	r.Count("ring_laps", int64(wpos/capU))
	r.Case(fmt.Sprintf("script|%s|cap%d|laps%d|waits%d|closed%v", prog.Backend, prog.Cap, minInt(int(wpos/capU), 12), minInt(nwaits, 6), closed))
}

func countWaiters(ws []*blWaiter) int {
	n := 0
	for _, w := range ws {
		if w != nil {
			n++
		}
	}
	return n
}

func genBacklogScript(rng *prng.R, backend string, capacity int) *c18prog {
	p := &c18prog{Backend: backend, Cap: capacity, Seed: rng.U64() >> 8}
	n := rng.Range(10, 80)
	if backend == "file" {
		n = rng.Range(8, 30)
	}
	sizes := []int{0, 1, 2, 17, capacity - 1, capacity, capacity + 1, capacity / 2, capacity/2 + 1, 2*capacity + 3, 4095, 4097}
	closeAt := -1
	if rng.Chance(1, 2) || backend == "file" && rng.Chance(1, 2) {
		closeAt = rng.Range(n/2, n-1)
	}
	for i := 0; i < n; i++ {
		var op blOp
		switch k := rng.Intn(24); {
		case i == closeAt:
			op = blOp{Name: "Close", Custom: rng.Bool()}
			if backend == "file" {
				op.FileFirst = rng.Chance(1, 2)
			}
		case k < 8:
			op = blOp{Name: "Write", N: sizes[rng.Intn(len(sizes))]}
			if rng.Chance(1, 3) {
				op.N = rng.Range(1, capacity)
			}
		case k < 14:
			op = blOp{Name: "ReadAt", N: rng.Pick(0, 1, 16, capacity/2, capacity, capacity+5)}
			switch rng.Intn(8) {
			case 7:
				op.Rel, op.Off = "huge", int64(rng.Intn(10))
			case 0:
				op.Rel, op.Off = "wpos", int64(rng.Pick(1, 2, 100, capacity))
			case 1:
				op.Rel, op.Off = "wpos", -int64(rng.Pick(1, 2, capacity/2, capacity-1, capacity, capacity+1, capacity+2))
			case 2:
				op.Rel, op.Off = "rpos", int64(rng.Pick(0, 1, -1, -2, 2, capacity/2))
			case 3:
				op.Rel, op.Off = "wpos", -int64(rng.Range(1, capacity))
			case 4:
				op.Off = int64(rng.Pick(0, 1, capacity, capacity+1))
			case 5:
				op.Rel, op.Off = "rpos", -int64(rng.Range(1, 3*capacity))
			default:
				op.Rel, op.Off = "wpos", -int64(rng.Range(1, 2*capacity))
			}
		case k < 17:
			op = blOp{Name: "WaitAt", N: rng.Pick(1, 8, capacity, 2*capacity)}
		case k < 19:
			op = blOp{Name: "DataRange"}
		case k < 20:
			op = blOp{Name: "NewReader"}
		case k < 21:
			op = blOp{Name: "SeekTo", Rel: rng.PickS("wpos", "rpos"), Off: int64(rng.Pick(0, 1, -1, 2, -2, capacity/2, -capacity/2, -capacity, -capacity-1))}
		case k < 22:
			op = blOp{Name: "IsValid"}
		default:
			op = blOp{Name: "RRead", N: rng.Pick(0, 1, 33, capacity)}
		}
		p.Ops = append(p.Ops, op)
	}
	return p
}

func c18scriptChild(raw json.RawMessage, scratch string) {
	var ex c09extra
	a := wk.ParseBatchArg(raw, &ex)
	r := wk.ChildRes("C18")
	base := prng.New(a.Seed).Split(0xC18)
	for i := a.Start; i < a.End; i++ {
		rng := base.At(uint64(i))
		var prog *c18prog
		if ex.File {
			prog = genBacklogScript(rng, "file", rng.Pick(4<<20, 4<<20, 8<<20, 12<<20))
		} else {
			prog = genBacklogScript(rng, "mem", rng.Pick(4096, 4096, 8192, 12288))
		}
		wk.ChildCase(i, prog)
		runBacklogScript(r, prog, scratch)
		if i == a.Start {
			sp := *prog
			if len(sp.Ops) > 10 {
				sp.Ops = sp.Ops[:10]
			}
			r.Sample(map[string]interface{}{"mode": "scripted", "program_first_ops": sp, "total_ops": len(prog.Ops)})
		}
	}
	wk.ChildDone(r)
}

// ---- Mode B: concurrent histories checked with porcupine

type blIn struct {
	Op  string // W R D
	N   int
	Off uint64
}

type blOut struct {
	N       int
	Invalid bool
	Err     bool
	Rpos    uint64
	Wpos    uint64
	DataOK  bool
}

func backlogModel(capacity uint64) porcupine.Model {
	return porcupine.Model{
		Init: func() interface{} { return uint64(0) },
		Step: func(state, input, output interface{}) (bool, interface{}) {
			st := state.(uint64)
			in := input.(blIn)
			out := output.(blOut)
			switch in.Op {
			case "W":
				return !out.Err && out.N == in.N, st + uint64(in.N)
			case "D":
				rp := uint64(0)
				if st >= capacity {
					rp = st - capacity
				}
				return !out.Err && out.Wpos == st && out.Rpos == rp, st
			default: // R
				if in.Off > st || in.Off+capacity < st {
					return out.Invalid && out.N == 0, st
				}
				if in.Off == st {
					return false, st // cannot return while nothing is there (it waits)
				}
				max := uint64(in.N)
				if st-in.Off < max {
					max = st - in.Off
				}
				return !out.Err && !out.Invalid && out.N >= 1 && uint64(out.N) <= max && out.DataOK, st
			}
		},
		DescribeOperation: func(input, output interface{}) string {
			return fmt.Sprintf("%+v -> %+v", input, output)
		},
	}
}

type histCase struct {
	Backend string `json:"backend"`
	Cap     int    `json:"capacity"`
	Seed    uint64 `json:"seed"`
	Readers int    `json:"readers"`
	Writes  int    `json:"writes"`
}

func runHistory(r *res.R, hc *histCase, scratch string) {
	var bl *backlog.Backlog
	if hc.Backend == "file" {
		f, err := os.OpenFile(filepath.Join(scratch, fmt.Sprintf("blh-%d.dat", hc.Seed)), os.O_CREATE|os.O_RDWR|os.O_TRUNC, 0600)
		if err != nil {
			r.Inconcl("cannot create backing file")
			return
		}
		defer os.Remove(f.Name())
		bl = backlog.NewFileBacklog(hc.Cap, f)
	} else {
		bl = backlog.NewSize(hc.Cap)
	}
	capU := uint64(hc.Cap)
	var mu sync.Mutex
	var ops []porcupine.Operation
	t0 := time.Now()
	now := func() int64 { return int64(time.Since(t0)) }
	record := func(client int, in blIn, call int64, out blOut, ret int64) {
		mu.Lock()
		ops = append(ops, porcupine.Operation{ClientId: client, Input: in, Call: call, Output: out, Return: ret})
		mu.Unlock()
	}
	var knownW uint64 // writer-published lower bound of wpos (readers aim around it)
	var stop int32
	var wg sync.WaitGroup
	var wrongData int64 = -1
	wg.Add(1)
	go func() { // the single writer: chunks never cross the ring end, so each Write is one atomic step
		defer wg.Done()
		rng := prng.New(hc.Seed).Split(99)
		var wpos uint64
		for i := 0; i < hc.Writes; i++ {
			room := int(capU - wpos%capU)
			n := rng.Pick(1, 7, room, room/2+1, rng.Range(1, room))
			if n > room {
				n = room
			}
			b := make([]byte, n)
			fillPos(b, hc.Seed, wpos)
			call := now()
			k, err := bl.Write(b)
			ret := now()
			record(0, blIn{Op: "W", N: n}, call, blOut{N: k, Err: err != nil}, ret)
			wpos += uint64(n)
			atomic.StoreUint64(&knownW, wpos)
			if rng.Chance(1, 3) {
				time.Sleep(time.Duration(rng.Intn(100)) * time.Microsecond)
			}
		}
		atomic.StoreInt32(&stop, 1)
	}()
	for c := 1; c <= hc.Readers; c++ {
		wg.Add(1)
		go func(client int) {
			defer wg.Done()
			rng := prng.New(hc.Seed).Split(uint64(client))
			nops := 0
			for atomic.LoadInt32(&stop) == 0 && nops < 70 {
				nops++
				kw := atomic.LoadUint64(&knownW)
				if rng.Chance(1, 5) {
					call := now()
					rp, wp, err := bl.DataRange()
					ret := now()
					record(client, blIn{Op: "D"}, call, blOut{Rpos: rp, Wpos: wp, Err: err != nil}, ret)
					continue
				}
				var off uint64
				switch rng.Intn(6) {
				case 0: // around the oldest byte
					off = sub(kw, capU+uint64(rng.Pick(0, 1, 2, 3, 16)))
				case 1:
					off = sub(kw, capU-uint64(rng.Pick(0, 1, 2, 64)))
				case 2: // just behind the write position (never at/after it: that may wait forever)
					off = sub(kw, uint64(rng.Pick(1, 2, 3, 40)))
				case 3:
					off = kw + uint64(rng.Pick(50000000, 1<<40)) // far beyond: invalid
				default:
					off = sub(kw, uint64(rng.Range(1, 2*hc.Cap)))
				}
				if off >= kw && off < kw+1000 {
					continue
				}
				n := rng.Pick(1, 8, 64, hc.Cap)
				buf := make([]byte, n)
				call := now()
				k, err := bl.ReadAt(buf, off)
				ret := now()
				out := blOut{N: k, Invalid: isInvalidOffset(err), Err: err != nil && !isInvalidOffset(err), DataOK: true}
				if k > 0 {
					if bad := checkPos(buf[:k], hc.Seed, off); bad >= 0 {
						out.DataOK = false
						atomic.CompareAndSwapInt64(&wrongData, -1, int64(off)+int64(bad))
					}
				}
				record(client, blIn{Op: "R", N: n, Off: off}, call, out, ret)
				if rng.Chance(1, 4) {
					time.Sleep(time.Duration(rng.Intn(60)) * time.Microsecond)
				}
			}
		}(c)
	}
	wg.Wait()
	bl.Close()
	res1, info := porcupine.CheckOperationsVerbose(backlogModel(capU), ops, 60*time.Second)
	_ = info
	r.Count("history_ops", int64(len(ops)))
	switch res1 {
	case porcupine.Unknown:
		r.Inconcl(fmt.Sprintf("porcupine timed out on a history of %d ops", len(ops)))
	case porcupine.Illegal:
		sig := "C18|" + hc.Backend + "|history|outcome=not-linearizable"
		if wrongData >= 0 {
			sig = "C18|" + hc.Backend + "|history|outcome=wrong-bytes"
		}
		// write a compact witness: operations that are individually illegal at any wpos between call and return are most telling; keep the first 40 ops
		w := []string{}
		for i, o := range ops {
			if i >= 40 {
				break
			}
			w = append(w, fmt.Sprintf("c%d [%d,%d] %+v -> %+v", o.ClientId, o.Call, o.Return, o.Input, o.Output))
		}
		r.Violation(sig, fmt.Sprintf("history of %d operations (1 writer, %d readers, capacity %d) is not linearizable w.r.t. the offset model (first wrong byte at %d)", len(ops), hc.Readers, hc.Cap, wrongData), map[string]interface{}{"case": hc, "first_ops": w})
	default:
		r.Count("histories_linearizable", 1)
	}
	r.Case(fmt.Sprintf("hist|%s|cap%d|r%d|ops%d", hc.Backend, hc.Cap, hc.Readers, len(ops)/25))
}

func sub(a, b uint64) uint64 {
	if b > a {
		return 0
	}
	return a - b
}

func c18histChild(raw json.RawMessage, scratch string) {
	var ex c09extra
	a := wk.ParseBatchArg(raw, &ex)
	r := wk.ChildRes("C18")
	base := prng.New(a.Seed).Split(0xB18)
	for i := a.Start; i < a.End; i++ {
		rng := base.At(uint64(i))
		hc := &histCase{Backend: "mem", Cap: rng.Pick(4096, 8192), Seed: rng.U64() >> 8, Readers: rng.Range(2, 4), Writes: rng.Range(20, 60)}
		if ex.File {
			hc.Backend, hc.Cap = "file", 4<<20
		}
		wk.ChildCase(i, hc)
		runHistory(r, hc, scratch)
		if i == a.Start {
			r.Sample(map[string]interface{}{"mode": "porcupine-history", "case": hc})
		}
		// ring-crossing writes: interval oracle with concurrent DataRange/ReadAt observers
		runCrossing(r, hc, scratch, rng)
		runMultiWriter(r, hc, rng)
		runTailers(r, hc, rng)
	}
	wk.ChildDone(r)
}

type tailer struct {
	pos  uint64 // bytes received so far (atomic)
	done chan struct{}
	err  error
}

//go:noinline
func c18Tail0(bl *backlog.Backlog, t *tailer, total uint64) { tailLoop(bl, t, total) }

//go:noinline
func c18Tail1(bl *backlog.Backlog, t *tailer, total uint64) { tailLoop(bl, t, total) }

//go:noinline
func c18Tail2(bl *backlog.Backlog, t *tailer, total uint64) { tailLoop(bl, t, total) }

func tailLoop(bl *backlog.Backlog, t *tailer, total uint64) {
	defer close(t.done)
	buf := make([]byte, 512)
	for pos := uint64(0); pos < total; {
		n, err := bl.ReadAt(buf, pos)
		if err != nil {
			t.err = err
			return
		}
		pos += uint64(n)
		atomic.StoreUint64(&t.pos, pos)
	}
}

// runTailers: several readers follow the write position at the same time (each blocks whenever it has caught up) while
// the writer keeps appending small chunks. "Waits while o equals the write position" - and only then: once the writer
// is done, a reader that is still parked below the write position can never be woken again.
func runTailers(r *res.R, hc *histCase, rng *prng.R) {
	if hc.Backend == "file" {
		return
	}
	bl := backlog.NewSize(1 << 20) // nothing is overwritten: every reader can reach the end
	defer bl.Close()
	chunks := 400
	sizes := make([]int, chunks)
	var total uint64
	for i := range sizes {
		sizes[i] = rng.Pick(1, 3, 8, 64, 300)
		total += uint64(sizes[i])
	}
	ts := []*tailer{{done: make(chan struct{})}, {done: make(chan struct{})}, {done: make(chan struct{})}}
	go c18Tail0(bl, ts[0], total)
	go c18Tail1(bl, ts[1], total)
	go c18Tail2(bl, ts[2], total)
	payload := make([]byte, 300)
	for i, n := range sizes {
		bl.Write(payload[:n])
		if i%7 == 3 {
			runtime.Gosched()
		}
	}
	r.Count("tailing_reader_runs", 1)
	for k, t := range ts {
		marker := fmt.Sprintf("ppkg.c18Tail%d", k)
		finished, parked := gstate.Settle(t.done, marker, 20*time.Second)
		switch {
		case finished && t.err != nil:
			r.Violation("C18|mem|tailing-readers|outcome=read-error", fmt.Sprintf("reader %d of 3 tailing readers got %v at offset %d although nothing was overwritten (capacity 1 MiB, %d bytes written)", k, t.err, atomic.LoadUint64(&t.pos), total), hc)
			return
		case finished:
		case parked:
			r.Violation("C18|mem|tailing-readers|outcome=parked-below-write-position", fmt.Sprintf("reader %d of 3 tailing readers is parked in sync.Cond.Wait at offset %d although the write position is %d and the writer has finished: no later broadcast can wake it", k, atomic.LoadUint64(&t.pos), total), hc)
			return
		default:
			r.Inconcl("tailing readers: a reader neither finished nor parked within the watchdog")
			return
		}
	}
}

// runMultiWriter: several goroutines write at the same time, one of them with payloads that regularly straddle the
// physical end of the ring. Whatever the interleaving, the log must be a sequence of whole writes: the bytes one
// Write put at offset o..o+n are what a read at o returns, never another writer's bytes in between. Every payload
// names its writer, round and length, so the round's log region either parses into exactly this round's payloads
// or it does not.
func runMultiWriter(r *res.R, hc *histCase, rng *prng.R) {
	if hc.Backend == "file" {
		return
	}
	const small = 8
	capacity := 4096
	bl := backlog.NewSize(capacity)
	defer bl.Close()
	rounds := 300
	mk := func(id, round, n int) []byte {
		b := make([]byte, n)
		b[0], b[1], b[2] = byte(id), byte(n), byte(n>>8)
		for i := 3; i < n; i++ {
			b[i] = byte(id*131 + round*17 + i*7)
		}
		return b
	}
	start := make([]chan []byte, small+1)
	var wg sync.WaitGroup
	for w := range start {
		start[w] = make(chan []byte)
		go func(w int) {
			for b := range start[w] {
				bl.Write(b)
				wg.Done()
			}
		}(w)
	}
	defer func() {
		for _, c := range start {
			close(c)
		}
	}()
	var wpos uint64
	straddles := 0
	for round := 0; round < rounds; round++ {
		payloads := make([][]byte, small+1)
		payloads[0] = mk(0, round, rng.Range(900, 3000))
		total := len(payloads[0])
		for w := 1; w <= small; w++ {
			payloads[w] = mk(w, round, rng.Range(3, 90))
			total += len(payloads[w])
		}
		if int(wpos%uint64(capacity))+total > capacity {
			straddles++
		}
		wg.Add(small + 1)
		for _, w := range rng.Perm(small + 1) {
			start[w] <- payloads[w]
		}
		wg.Wait()
		buf := make([]byte, total)
		got := 0
		for got < total {
			k, err := bl.ReadAt(buf[got:], wpos+uint64(got))
			if err != nil || k == 0 {
				r.Violation("C18|mem|concurrent-writers|outcome=round-not-readable", fmt.Sprintf("round %d: %d bytes were written by %d concurrent Writes at offset %d, ReadAt(%d) = %d, %v", round, total, small+1, wpos, wpos+uint64(got), k, err), hc)
				return
			}
			got += k
		}
		seen := map[int]bool{}
		for pos := 0; pos < total; {
			bad := ""
			id := int(buf[pos])
			n := 0
			if pos+3 <= total {
				n = int(buf[pos+1]) | int(buf[pos+2])<<8
			}
			switch {
			case id > small || seen[id] || n != len(payloads[id]) || pos+n > total:
				bad = "no whole write starts here"
			case !bytes.Equal(buf[pos:pos+n], payloads[id]):
				bad = fmt.Sprintf("the write of writer %d (%d bytes) starts here but is not contiguous", id, n)
			}
			if bad != "" {
				r.Violation("C18|mem|concurrent-writers|outcome=write-not-contiguous-in-log", fmt.Sprintf("round %d (capacity %d, round starts at offset %d = ring position %d, %d bytes from %d concurrent Writes): at offset %d %s; a read at a write's offset must return that write's bytes", round, capacity, wpos, wpos%uint64(capacity), total, small+1, wpos+uint64(pos), bad), hc)
				return
			}
			seen[id] = true
			pos += n
		}
		wpos += uint64(total)
	}
	r.Count("concurrent_writer_rounds", int64(rounds))
	r.Count("concurrent_writer_rounds_straddling_ring_end", int64(straddles))
}

// runCrossing: writes that cross the ring end are not atomic; every concurrent observation must still be
// consistent with some wpos between its value at call and at return, and never return other bytes.
func runCrossing(r *res.R, hc *histCase, scratch string, rng *prng.R) {
	if hc.Backend == "file" {
		return
	}
	bl := backlog.NewSize(hc.Cap)
	capU := uint64(hc.Cap)
	var lo, hi uint64 // wpos bounds published by the writer: lo = completed, hi = completed + in-flight
	var stop int32
	var wg sync.WaitGroup
	var bad atomic.Value
	wg.Add(1)
	go func() {
		defer wg.Done()
		var wpos uint64
		wr := prng.New(hc.Seed).Split(7)
		for i := 0; i < 40; i++ {
			n := wr.Pick(hc.Cap-1, hc.Cap, hc.Cap+1, hc.Cap/2+7, 2*hc.Cap+3, wr.Range(1, 2*hc.Cap))
			b := make([]byte, n)
			fillPos(b, hc.Seed, wpos)
			atomic.StoreUint64(&hi, wpos+uint64(n))
			bl.Write(b)
			wpos += uint64(n)
			atomic.StoreUint64(&lo, wpos)
		}
		atomic.StoreInt32(&stop, 1)
	}()
	for c := 0; c < 3; c++ {
		wg.Add(1)
		go func(c int) {
			defer wg.Done()
			rr := prng.New(hc.Seed).Split(uint64(100 + c))
			for atomic.LoadInt32(&stop) == 0 {
				lo1 := atomic.LoadUint64(&lo)
				if rr.Bool() {
					rp, wp, err := bl.DataRange()
					hi2 := atomic.LoadUint64(&hi)
					if err != nil || wp < lo1 || wp > hi2 || (wp >= capU && rp != wp-capU) || (wp < capU && rp != 0) {
						bad.Store(fmt.Sprintf("DataRange()=(%d,%d,%v) while wpos in [%d,%d]", rp, wp, err, lo1, hi2))
					}
					continue
				}
				off := sub(lo1, uint64(rr.Range(1, hc.Cap)))
				buf := make([]byte, rr.Pick(1, 64, hc.Cap))
				k, err := bl.ReadAt(buf, off)
				hi2 := atomic.LoadUint64(&hi)
				if err != nil {
					// an error is acceptable only as invalid-offset, and only if off could have been lapped for some wpos <= hi2
					if !(isInvalidOffset(err) && off+capU < hi2) {
						bad.Store(fmt.Sprintf("ReadAt(%d) failed with %v while wpos in [%d,%d] (capacity %d)", off, err, lo1, hi2, capU))
					}
					continue
				}
				if k > 0 {
					// bytes may be overwritten concurrently only if off+cap < hi2 (the writer lapped them during the call)
					if i := checkPos(buf[:k], hc.Seed, off); i >= 0 && off+uint64(i)+capU >= hi2 {
						bad.Store(fmt.Sprintf("ReadAt(%d) returned other bytes at position %d although wpos never exceeded %d (capacity %d)", off, off+uint64(i), hi2, capU))
					}
				}
			}
		}(c)
	}
	wg.Wait()
	bl.Close()
	r.Case("")
	r.Count("crossing_runs", 1)
	if v := bad.Load(); v != nil {
		r.Violation("C18|mem|crossing|outcome=inconsistent-observation", v.(string), hc)
	}
}

func c18(c *wk.Ctx) {
	r := c.R
	r.Rule = "Mode A: seeded single-threaded programs of Write/ReadAt/WaitAt(up to 3 simultaneous readers parked at wpos)/DataRange/NewReader/SeekTo/IsValid/Reader.Read/Close against an exact offset model {wpos, capacity, closed} with position-coded content; offsets aimed at wpos-cap-1..wpos-cap+1 and wpos..wpos+1; waiting/waking decided by goroutine state (half of the file-backend Close steps happen after the backing file was closed by its owner). " +
		"Mode B: 1 writer (chunks not crossing the ring end) + 2-4 readers recorded at the API boundary and checked with porcupine against the model; ring-crossing writes under an interval oracle; 9 concurrent writers (one with payloads that straddle the ring end) whose self-describing payloads must each be contiguous in the log. distinct = (backend, capacity, ring laps, #waits, closed) / history shape"
	if c.Replay != "" {
		b, err := os.ReadFile(c.Replay)
		if err != nil {
			r.Inconcl("cannot read replay")
			return
		}
		var f struct {
			Case json.RawMessage `json:"case"`
		}
		json.Unmarshal(b, &f)
		var prog c18prog
		if json.Unmarshal(f.Case, &prog) == nil && len(prog.Ops) > 0 {
			runBacklogScript(r, &prog, c.Scratch)
			return
		}
		var w struct {
			Case histCase `json:"case"`
		}
		if json.Unmarshal(f.Case, &w) == nil && w.Case.Writes > 0 {
			runHistory(r, &w.Case, c.Scratch)
			return
		}
		var hc histCase
		if json.Unmarshal(f.Case, &hc) == nil && hc.Writes > 0 {
			runHistory(r, &hc, c.Scratch)
			runCrossing(r, &hc, c.Scratch, prng.New(1))
			return
		}
		r.Inconcl("replay file holds no C18 case")
		return
	}
	onDeath := func(kind string) func(d wk.Death) {
		return func(d wk.Death) {
			if d.Result.TimedOut {
				r.Inconcl("C18 " + kind + " child watchdog fired: " + wk.Tail(d.Result.Stderr, 300))
				return
			}
			r.Violationf("C18|"+kind+"|outcome=process-died", json.RawMessage(d.Desc), "backlog %s case killed the process (exit %d): %s", kind, d.Result.Exit, wk.Tail(d.Result.Stderr, 800))
		}
	}
	type job struct {
		name       string
		start, end int
		file       bool
	}
	var jobs []job
	split := func(name string, n, parts int, file bool) {
		for p := 0; p < parts; p++ {
			jobs = append(jobs, job{name, n * p / parts, n * (p + 1) / parts, file})
		}
	}
	split("c18script", c.N(2400, 120000), 6, false)
	split("c18script", c.N(24, 240), 3, true)
	split("c18hist", c.N(150, 6000), 5, false)
	split("c18hist", c.N(4, 40), 1, true)
	wk.Parallel(len(jobs), 15, func(i int) {
		j := jobs[i]
		off := 0
		if j.file {
			off = 1000000
		}
		wk.RunBatch(c, j.name, off+j.start, off+j.end, c09extra{File: j.file}, 25*time.Minute, onDeath(j.name))
	})
	r.Floor("script_ops", 10000)
	r.Floor("waits", 200)
	r.Floor("waiter_wakeups_by_write", 100)
	r.Floor("waiter_wakeups_by_close", 10)
	r.Floor("closes_after_the_backing_file_was_closed", 1)
	r.Floor("ring_laps", 500)
	r.Floor("history_ops", 2000)
	r.Floor("concurrent_writer_rounds_straddling_ring_end", 5000)
	r.Floor("tailing_reader_runs", 100)
	r.Assume("waiting/woken read from runtime.Stack goroutine states; porcupine model state = write position; content is position-coded so 'other bytes' is decidable per byte")
}
