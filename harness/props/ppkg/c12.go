package ppkg

import (
	"bytes"
	"fmt"
	"io"
	"math"
	"runtime"
	"strconv"
	"sync"
	"sync/atomic"

	cup "github.com/alibaba/RedisShake/pkg/libs/cupcake/rdb"
	"github.com/alibaba/RedisShake/pkg/libs/cupcake/rdb/nopdecoder"
	"github.com/alibaba/RedisShake/pkg/libs/log"
	"github.com/alibaba/RedisShake/pkg/rdb"

	"verif/harness/lib/prng"
	"verif/harness/lib/rdbgen"
	"verif/harness/lib/refrdb"
	"verif/harness/lib/wk"
)

func init() { wk.Register("C12", c12) }

// toObj converts a logical value into the tool's object types.
// shapedReader delivers data in pieces of the given sizes (cycled); with eofWithData the final piece comes together
// with io.EOF in the same call, which the io.Reader contract allows.
type shapedReader struct {
	data        []byte
	sizes       []int
	k           int
	eofWithData bool
}

func (s *shapedReader) Read(p []byte) (int, error) {
	if len(s.data) == 0 {
		return 0, io.EOF
	}
	n := s.sizes[s.k%len(s.sizes)]
	s.k++
	if n > len(p) {
		n = len(p)
	}
	if n > len(s.data) {
		n = len(s.data)
	}
	copy(p, s.data[:n])
	s.data = s.data[n:]
	if len(s.data) == 0 && s.eofWithData {
		return n, io.EOF
	}
	return n, nil
}

func toObj(v *rdbgen.Value) interface{} {
	switch v.Kind {
	case "string":
		return rdb.String(v.Str)
	case "list":
		l := rdb.List{}
		for _, e := range v.List {
			l = append(l, e)
		}
		return l
	case "set":
		l := rdb.Set{}
		for _, e := range v.List {
			l = append(l, e)
		}
		return l
	case "hash":
		h := rdb.Hash{}
		for _, p := range v.Hash {
			h = append(h, &rdb.HashElement{Field: p[0], Value: p[1]})
		}
		return h
	case "zset":
		z := rdb.ZSet{}
		for _, e := range v.ZSet {
			z = append(z, &rdb.ZSetElement{Member: e.Member, Score: e.Score})
		}
		return z
	}
	return nil
}

// fromObj converts the tool's decoded object back into a logical value (order preserved).
func fromObj(o interface{}) *rdbgen.Value {
	switch x := o.(type) {
	case rdb.String:
		return &rdbgen.Value{Kind: "string", Str: []byte(x)}
	case rdb.List:
		v := &rdbgen.Value{Kind: "list"}
		for _, e := range x {
			v.List = append(v.List, e)
		}
		return v
	case rdb.Set:
		v := &rdbgen.Value{Kind: "set"}
		for _, e := range x {
			v.List = append(v.List, e)
		}
		return v
	case rdb.Hash:
		v := &rdbgen.Value{Kind: "hash"}
		for _, e := range x {
			v.Hash = append(v.Hash, [2][]byte{e.Field, e.Value})
		}
		return v
	case rdb.ZSet:
		v := &rdbgen.Value{Kind: "zset"}
		for _, e := range x {
			v.ZSet = append(v.ZSet, rdbgen.ZEntry{Member: e.Member, Score: e.Score})
		}
		return v
	}
	return nil
}

// sameOrdered: equality including element order (and bit-exact scores, NaN == NaN).
func sameOrdered(a, b *rdbgen.Value) bool {
	if a == nil || b == nil || a.Kind != b.Kind {
		return false
	}
	switch a.Kind {
	case "string":
		return bytes.Equal(a.Str, b.Str)
	case "list", "set":
		if len(a.List) != len(b.List) {
			return false
		}
		for i := range a.List {
			if !bytes.Equal(a.List[i], b.List[i]) {
				return false
			}
		}
	case "hash":
		if len(a.Hash) != len(b.Hash) {
			return false
		}
		for i := range a.Hash {
			if !bytes.Equal(a.Hash[i][0], b.Hash[i][0]) || !bytes.Equal(a.Hash[i][1], b.Hash[i][1]) {
				return false
			}
		}
	case "zset":
		if len(a.ZSet) != len(b.ZSet) {
			return false
		}
		for i := range a.ZSet {
			x, y := a.ZSet[i].Score, b.ZSet[i].Score
			if !bytes.Equal(a.ZSet[i].Member, b.ZSet[i].Member) || !(x == y && math.Signbit(x) == math.Signbit(y) || math.IsNaN(x) && math.IsNaN(y)) {
				return false
			}
		}
	}
	return true
}

func describeValue(v *rdbgen.Value) string {
	switch v.Kind {
	case "string":
		return fmt.Sprintf("string %q", trunc(v.Str, 60))
	case "zset":
		s := "zset"
		for i, z := range v.ZSet {
			if i < 4 {
				s += fmt.Sprintf(" %q:%v", trunc(z.Member, 12), strconv.FormatFloat(z.Score, 'g', -1, 64))
			}
		}
		return s
	case "hash":
		s := fmt.Sprintf("hash(%d)", len(v.Hash))
		for i, p := range v.Hash {
			if i < 3 {
				s += fmt.Sprintf(" %q=%q", trunc(p[0], 12), trunc(p[1], 12))
			}
		}
		return s
	}
	s := fmt.Sprintf("%s(%d)", v.Kind, len(v.List))
	for i, e := range v.List {
		if i < 4 {
			s += fmt.Sprintf(" %q", trunc(e, 16))
		}
	}
	return s
}

// boundary strings around the integer encodings
func boundaryStrings() [][]byte {
	var out [][]byte
	for _, n := range []int64{127, 128, -128, -129, 32767, 32768, -32768, -32769, 2147483647, 2147483648, -2147483648, -2147483649, 0, -1, 1, 12, 13} {
		out = append(out, []byte(strconv.FormatInt(n, 10)))
	}
	for _, s := range []string{"-0", "+1", "007", " 1", "1 ", "0x1f", "1e3", "", "00", "-", "+", "9223372036854775807", "9223372036854775808", "1.0", "\x001"} {
		out = append(out, []byte(s))
	}
	return out
}

type collectDecoder struct {
	nopdecoder.NopDecoder
	db   int
	keys []string
}

func (c *collectDecoder) StartDatabase(n int) { c.db = n }
func (c *collectDecoder) Set(key, value []byte, expiry int64) {
	c.keys = append(c.keys, fmt.Sprintf("%d|%s|S|%s|%d", c.db, key, value, expiry))
}
func (c *collectDecoder) Rpush(key, value []byte) {
	c.keys = append(c.keys, fmt.Sprintf("%d|%s|L|%s", c.db, key, value))
}
func (c *collectDecoder) Sadd(key, m []byte) {
	c.keys = append(c.keys, fmt.Sprintf("%d|%s|M|%s", c.db, key, m))
}
func (c *collectDecoder) Hset(key, f, v []byte) {
	c.keys = append(c.keys, fmt.Sprintf("%d|%s|H|%s|%s", c.db, key, f, v))
}
func (c *collectDecoder) Zadd(key []byte, score float64, m []byte) {
	c.keys = append(c.keys, fmt.Sprintf("%d|%s|Z|%s|%x", c.db, key, m, math.Float64bits(score)))
}

func c12(c *wk.Ctx) {
	r := c.R
	log.SetLevel(log.LEVEL_ERROR)
	r.Rule = "(a) DecodeDump(EncodeDump(v)) == v with order for random logical values plus strings at the int8/16/32 boundaries and scores over special and random float64 bit patterns; " +
		"(b) every compact/plain encoding generated from a known logical value (lib/rdbgen) -> real loader -> BinEntry.ObjEntry() must equal the logical value; ObjEntry.BinEntry() round trip; " +
		"(a2) batches of 40 payloads held while the later ones are serialised (EncodeDump and ObjEntry.BinEntry), and 8 goroutines serialising at the same time: every payload must keep its bytes and its value; (c) rdb.NewEncoder file of (db,key,expiry,object) sequences -> loader -> same list, footer verifies; in-repo cupcake Encoder -> Decoder. distinct = (part, kind, encoding, size class)"
	if msg := refrdb.SelfTest(c.Seed, 300); msg != "" {
		r.Inconcl("harness self-test failed: " + msg)
		return
	}
	rng := c.Rng
	safe := func(name string, rep interface{}, f func()) {
		defer func() {
			if x := recover(); x != nil {
				r.Violationf("C12|"+name+"|outcome=panic", rep, "%s panicked: %v", name, x)
			}
		}()
		f()
	}
	// ---- (a)
	roundtrip := func(v *rdbgen.Value, tag string) {
		rep := describeValue(v)
		safe("encode-decode", rep, func() {
			p, err := rdb.EncodeDump(toObj(v))
			r.Case(fmt.Sprintf("a|%s|%s|%d", v.Kind, tag, lenClass(v.Elements())))
			if err != nil {
				r.Violationf("C12|encode|kind="+v.Kind+"|outcome=error", rep, "EncodeDump failed: %v", err)
				return
			}
			o, err := rdb.DecodeDump(p)
			if err != nil {
				r.Violationf("C12|encode-decode|kind="+v.Kind+"|outcome=decode-error", rep, "DecodeDump(EncodeDump(v)) failed: %v", err)
				return
			}
			back := fromObj(o)
			if v.Elements() == 0 && v.Kind != "string" && back != nil && back.Kind == v.Kind && back.Elements() == 0 {
				return
			}
			if !sameOrdered(v, back) {
				r.Violationf("C12|encode-decode|kind="+v.Kind+"|outcome=value-differs", rep, "DecodeDump(EncodeDump(v)) != v for %s; got %s", rep, describeValue(orEmpty(back)))
				return
			}
			// the payload must also mean the same to an independent decoder
			ref, _, err := refrdb.DecodeDump(p, 9)
			if err != nil || !refrdb.Equal(ref, v) {
				r.Violationf("C12|encode|kind="+v.Kind+"|outcome=payload-not-what-redis-reads", rep, "EncodeDump(%s) is not a payload carrying that value (reference decoder: %v)", rep, err)
			}
		})
	}
	for _, s := range boundaryStrings() {
		roundtrip(&rdbgen.Value{Kind: "string", Str: s}, "boundary")
		roundtrip(&rdbgen.Value{Kind: "list", List: [][]byte{s, []byte("x"), s}}, "boundary")
		roundtrip(&rdbgen.Value{Kind: "hash", Hash: [][2][]byte{{s, s}}}, "boundary")
		roundtrip(&rdbgen.Value{Kind: "zset", ZSet: []rdbgen.ZEntry{{Member: s, Score: 1}}}, "boundary")
	}
	for _, n := range []int{0, 1, 63, 64, 65, 16383, 16384, 16385} {
		roundtrip(&rdbgen.Value{Kind: "string", Str: bytes.Repeat([]byte("a"), n)}, "lenedge")
		l := &rdbgen.Value{Kind: "list"}
		for i := 0; i < n; i++ {
			l.List = append(l.List, []byte(strconv.Itoa(i)))
		}
		roundtrip(l, "lenedge")
	}
	nScores := c.N(10000, 200000)
	for i := 0; i < nScores; i += 20 {
		z := &rdbgen.Value{Kind: "zset"}
		for k := 0; k < 20; k++ {
			z.ZSet = append(z.ZSet, rdbgen.ZEntry{Member: []byte(fmt.Sprintf("m%d", k)), Score: rdbgen.RandScore(rng, true)})
		}
		roundtrip(z, "scores")
	}
	r.Count("scores_roundtripped", int64(nScores))
	for i := 0; i < c.N(3000, 40000); i++ {
		kind := rdbgen.Kinds[rng.Intn(6)]
		v := rdbgen.RandValue(rng, kind, rng.Pick(0, 1, 2, 9, 70))
		roundtrip(v, "random")
	}

	// ---- (a2) payloads are values of their own: one that is still held while later values are serialised (a batch
	// built first and shipped afterwards; several workers serialising at the same time) must keep meaning its value
	for b := 0; b < c.N(60, 1200); b++ {
		type held struct {
			v    *rdbgen.Value
			p    []byte
			copy []byte
		}
		var hs []held
		for k := 0; k < 40; k++ {
			v := rdbgen.RandValue(rng, rdbgen.Kinds[rng.Intn(6)], rng.Pick(1, 2, 9, 70))
			var p []byte
			var err error
			if k%2 == 0 {
				p, err = rdb.EncodeDump(toObj(v))
			} else {
				var be *rdb.BinEntry
				be, err = (&rdb.ObjEntry{DB: 1, Key: []byte("k"), Value: toObj(v)}).BinEntry()
				if err == nil {
					p = be.Value
				}
			}
			if err != nil {
				continue
			}
			hs = append(hs, held{v, p, append([]byte{}, p...)})
		}
		r.Case("a2|held-batch")
		r.Count("held_payloads", int64(len(hs)))
		for i, h := range hs {
			if !bytes.Equal(h.p, h.copy) {
				r.Violationf("C12|encode|outcome=payload-changed-after-it-was-returned", describeValue(h.v), "payload #%d of a batch of %d (%s) no longer has the bytes it had when EncodeDump returned it: later serialisations wrote into it", i, len(hs), describeValue(h.v))
				break
			}
			o, err := rdb.DecodeDump(h.p)
			if err != nil || !sameOrdered(h.v, fromObj(o)) {
				if h.v.Elements() == 0 && h.v.Kind != "string" {
					continue
				}
				r.Violationf("C12|encode-decode|outcome=held-payload-decodes-to-another-value", describeValue(h.v), "payload #%d of a batch of %d decodes to %s, was serialised from %s (%v)", i, len(hs), describeValue(orEmpty(fromObj(o))), describeValue(h.v), err)
				break
			}
		}
	}
	{
		const workers = 8
		var wg sync.WaitGroup
		var mu sync.Mutex
		bad := ""
		var rounds int64
		per := c.N(400, 8000)
		for w := 0; w < workers; w++ {
			wg.Add(1)
			wr := rng.Split(uint64(0xC12000 + w))
			go func(wr *prng.R) {
				defer wg.Done()
				defer func() {
					if x := recover(); x != nil {
						mu.Lock()
						bad = fmt.Sprintf("panic in a serialising worker: %v", x)
						mu.Unlock()
					}
				}()
				for i := 0; i < per; i++ {
					v := rdbgen.RandValue(wr, rdbgen.Kinds[wr.Intn(6)], wr.Pick(1, 2, 9, 70))
					p, err := rdb.EncodeDump(toObj(v))
					if err != nil {
						continue
					}
					runtime.Gosched()
					o, err := rdb.DecodeDump(p)
					if (err != nil || !sameOrdered(v, fromObj(o))) && !(v.Elements() == 0 && v.Kind != "string") {
						mu.Lock()
						bad = fmt.Sprintf("with %d goroutines serialising at the same time, a payload decodes to %s, was serialised from %s (%v)", workers, describeValue(orEmpty(fromObj(o))), describeValue(v), err)
						mu.Unlock()
						return
					}
					atomic.AddInt64(&rounds, 1)
				}
			}(wr)
		}
		wg.Wait()
		r.Case("a2|concurrent-encoders")
		r.Count("concurrent_encode_decode_rounds", rounds)
		if bad != "" {
			r.Violationf("C12|encode-decode|outcome=concurrent-serialisation-corrupts-payload", nil, "%s", bad)
		}
	}

	// ---- (b) loader -> ObjEntry for every encoding
	nB := c.N(2500, 40000)
	for i := 0; i < nB; i++ {
		kind := rdbgen.Kinds[rng.Intn(6)]
		n := rng.Pick(1, 2, 3, 9, 63, 64, 65, 200)
		v := rdbgen.RandValue(rng, kind, n)
		for _, enc := range rdbgen.EncodingsFor(v) {
			ks := &rdbgen.KeySpec{DB: uint32(rng.Pick(0, 3)), Key: rdbgen.RandKey(rng), Val: v, Enc: enc, ExpireMs: uint64(rng.Pick(0, 1700000000000))}
			f := &rdbgen.File{Version: rng.Range(6, 9), Items: []rdbgen.Item{{Key: ks}}}
			data, recs := rdbgen.Build(rng, f, rng.Pick(0, 0, 4))
			label := recs[0].Encoding
			if len(label) > 14 && label[:14] == "list/quicklist" {
				label = "list/quicklist"
			}
			rep := map[string]interface{}{"encoding": label, "value": describeValue(v), "file_hex": fmt.Sprintf("%x", trunc(data, 1500))}
			r.Count("enc:"+label, 1)
			r.Case(fmt.Sprintf("b|%s|%d", label, lenClass(n)))
			safe("loader-objentry", rep, func() {
				l := rdb.NewLoader(bytes.NewReader(data))
				if err := l.Header(); err != nil {
					r.Violationf("C12|objentry|enc="+label+"|outcome=load-error", rep, "Header: %v", err)
					return
				}
				e, err := l.NextBinEntry()
				if err != nil || e == nil {
					r.Violationf("C12|objentry|enc="+label+"|outcome=load-error", rep, "NextBinEntry: %v", err)
					return
				}
				oe, err := e.ObjEntry()
				if err != nil {
					r.Violationf("C12|objentry|enc="+label+"|outcome=decode-error", rep, "ObjEntry() of a %s payload failed: %v", label, err)
					return
				}
				got := fromObj(oe.Value)
				if got == nil || !(refrdb.Equal(got, v) && (v.Kind != "list" || sameOrdered(got, v))) {
					r.Violationf("C12|objentry|enc="+label+"|outcome=value-differs", rep, "decoding the parser's %s payload gives %s, Redis would materialise %s", label, describeValue(orEmpty(got)), describeValue(v))
					return
				}
				if oe.DB != ks.DB || !bytes.Equal(oe.Key, ks.Key) || oe.ExpireAt != ks.ExpireMs {
					r.Violationf("C12|objentry|enc="+label+"|outcome=meta-differs", rep, "ObjEntry lost db/key/expiry")
					return
				}
				be, err := oe.BinEntry()
				if err != nil {
					r.Violationf("C12|binentry|kind="+v.Kind+"|outcome=error", rep, "ObjEntry.BinEntry(): %v", err)
					return
				}
				o2, err := rdb.DecodeDump(be.Value)
				if err != nil || !sameOrdered(fromObj(o2), got) {
					r.Violationf("C12|binentry|kind="+v.Kind+"|outcome=value-differs", rep, "ObjEntry.BinEntry().Value does not decode to the same value (%v)", err)
				}
			})
		}
	}

	// ---- (c) whole files through rdb.NewEncoder
	for i := 0; i < c.N(400, 6000); i++ {
		var buf bytes.Buffer
		enc := rdb.NewEncoder(&buf)
		type ent struct {
			db  uint32
			key []byte
			exp uint64
			v   *rdbgen.Value
		}
		var ents []ent
		n := rng.Range(0, 12)
		db := uint32(0)
		for k := 0; k < n; k++ {
			if rng.Chance(1, 3) {
				db = uint32(rng.Pick(0, 1, 7, 63, 64, 300))
			}
			v := rdbgen.RandValue(rng, rdbgen.Kinds[rng.Intn(6)], rng.Pick(1, 2, 5, 30))
			ents = append(ents, ent{db, append([]byte(fmt.Sprintf("k%d:", k)), rdbgen.RandKey(rng)...), uint64(rng.Pick(0, 0, 1, 1700000000123)), v})
		}
		rep := fmt.Sprintf("%d entries", n)
		r.Case(fmt.Sprintf("c|%d", n))
		safe("file-roundtrip", rep, func() {
			if err := enc.EncodeHeader(); err != nil {
				r.Violationf("C12|file|outcome=encode-error", rep, "EncodeHeader: %v", err)
				return
			}
			for k, e := range ents {
				if i%3 == 1 && k%2 == 0 {
					// the caller offers something that is not an object (another database, an expiry): the encoder refuses it, the
					// caller skips it and carries on - the file must hold exactly the entries that were accepted
					if err := enc.EncodeObject(e.db+1, []byte("refused"), 1600000000999, 42); err == nil {
						r.Violationf("C12|file|outcome=non-object-accepted", rep, "EncodeObject accepted an int as an object")
						return
					}
					r.Count("file_entries_refused_between_accepted_ones", 1)
				}
				if err := enc.EncodeObject(e.db, e.key, e.exp, toObj(e.v)); err != nil {
					r.Violationf("C12|file|outcome=encode-error", rep, "EncodeObject: %v", err)
					return
				}
			}
			if err := enc.EncodeFooter(); err != nil {
				r.Violationf("C12|file|outcome=encode-error", rep, "EncodeFooter: %v", err)
				return
			}
			// the file comes back through one of several legal io.Reader behaviours: everything at once, short
			// reads, the last bytes delivered together with io.EOF, one byte at a time
			shape := []string{"contiguous", "short-reads", "data-with-eof", "one-byte+data-with-eof"}[i%4]
			var src io.Reader = bytes.NewReader(buf.Bytes())
			switch shape {
			case "short-reads":
				src = &shapedReader{data: buf.Bytes(), sizes: []int{1, 3, 1000, 7}}
			case "data-with-eof":
				src = &shapedReader{data: buf.Bytes(), sizes: []int{4096}, eofWithData: true}
			case "one-byte+data-with-eof":
				src = &shapedReader{data: buf.Bytes(), sizes: []int{1}, eofWithData: true}
			}
			r.Count("file_roundtrip_source:"+shape, 1)
			rep = fmt.Sprintf("%d entries, read back from a %s source", n, shape)
			l := rdb.NewLoader(src)
			if err := l.Header(); err != nil {
				r.Violationf("C12|file|outcome=header-rejected", rep, "Header: %v", err)
				return
			}
			for k, want := range ents {
				e, err := l.NextBinEntry()
				if err != nil || e == nil {
					r.Violationf("C12|file|outcome=entry-missing", rep, "entry %d: %v", k, err)
					return
				}
				o, err := rdb.DecodeDump(e.Value)
				if err != nil || e.DB != want.db || !bytes.Equal(e.Key, want.key) || e.ExpireAt != want.exp || !(sameOrdered(fromObj(o), want.v) || want.v.Elements() == 0) {
					r.Violationf("C12|file|outcome=entry-differs", rep, "entry %d read back as db=%d key=%q exp=%d (%v); written db=%d key=%q exp=%d %s", k, e.DB, trunc(e.Key, 30), e.ExpireAt, err, want.db, trunc(want.key, 30), want.exp, describeValue(want.v))
					return
				}
			}
			if e, err := l.NextBinEntry(); e != nil || err != nil {
				r.Violationf("C12|file|outcome=extra-entry", rep, "extra entry / error after the last: %v", err)
				return
			}
			if err := l.Footer(); err != nil {
				r.Violationf("C12|file|outcome=footer-rejected", rep, "footer of a file written by NewEncoder does not verify: %v", err)
			}
		})
	}
	// in-repo cupcake Encoder -> Decoder
	for i := 0; i < c.N(200, 3000); i++ {
		var buf bytes.Buffer
		e := cup.NewEncoder(&buf)
		var want []string
		e.EncodeHeader()
		e.EncodeDatabase(2)
		n := rng.Range(1, 6)
		for k := 0; k < n; k++ {
			key := []byte(fmt.Sprintf("key%d", k))
			val := rdbgen.RandElem(rng)
			exp := uint64(rng.Pick(0, 1700000000000))
			if exp != 0 {
				e.EncodeExpiry(exp)
			}
			e.EncodeType(cup.TypeString)
			e.EncodeString(key)
			e.EncodeString(val)
			want = append(want, fmt.Sprintf("2|%s|S|%s|%d", key, val, exp))
		}
		e.EncodeFooter()
		cd := &collectDecoder{}
		r.Case("cup")
		safe("cupcake-pair", n, func() {
			if err := cup.Decode(bytes.NewReader(buf.Bytes()), cd); err != nil {
				r.Violationf("C12|cupcake-pair|outcome=decode-error", n, "cupcake Decode of its own Encoder output failed: %v", err)
				return
			}
			if fmt.Sprint(cd.keys) != fmt.Sprint(want) {
				r.Violationf("C12|cupcake-pair|outcome=differs", n, "cupcake Decoder read %q, Encoder wrote %q", trunc([]byte(fmt.Sprint(cd.keys)), 200), trunc([]byte(fmt.Sprint(want)), 200))
			}
		})
	}
	for _, e := range []string{"string/raw", "string/int", "string/lzf", "list/linked", "list/ziplist", "list/quicklist", "set/table", "set/intset16", "set/intset32", "set/intset64", "zset/text", "zset/binary", "zset/ziplist", "hash/table", "hash/zipmap", "hash/ziplist"} {
		r.Floor("enc:"+e, 30)
	}
	r.Sample(map[string]interface{}{"part": "a", "value": "zset m0:-0 m1:+Inf m2:NaN m3:4.9e-324", "check": "DecodeDump(EncodeDump(v)) == v, bit-exact scores"})
	r.Sample(map[string]interface{}{"part": "b", "encoding": "zset/ziplist with int24 -8388608 member and score", "check": "loader -> ObjEntry == logical value"})
	r.Assume("logical value of a generated compact encoding is known by construction (lib/rdbgen); zipmap item lengths < 253; empty collections are compared by emptiness (nil vs empty slice not distinguished)")
	_ = prng.New
}

func orEmpty(v *rdbgen.Value) *rdbgen.Value {
	if v == nil {
		return &rdbgen.Value{Kind: "nil"}
	}
	return v
}
