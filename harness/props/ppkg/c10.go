package ppkg

import (
	"bufio"
	"bytes"
	"encoding/json"
	"fmt"
	"io"
	"io/ioutil"
	"sync"
	"sync/atomic"
	"time"

	"github.com/alibaba/RedisShake/pkg/redis"

	"verif/harness/lib/prng"
	"verif/harness/lib/refresp"
	"verif/harness/lib/wk"
)

func init() { wk.Register("C10", c10) }

// chunkReader returns data in scripted small chunks (buffering independence).
type chunkReader struct {
	p    []byte
	rng  *prng.R
	mode int // 0: 1 byte, 1: random 1..7, 2: all
}

func (c *chunkReader) Read(b []byte) (int, error) {
	if len(c.p) == 0 {
		return 0, io.EOF
	}
	n := len(b)
	switch c.mode {
	case 0:
		n = 1
	case 1:
		n = c.rng.Range(1, 7)
	}
	if n > len(b) {
		n = len(b)
	}
	if n > len(c.p) {
		n = len(c.p)
	}
	copy(b, c.p[:n])
	c.p = c.p[n:]
	return n, nil
}

func toV(r redis.Resp) (refresp.V, bool) {
	switch x := r.(type) {
	case *redis.String:
		return refresp.V{K: refresp.Str, S: x.Value}, true
	case *redis.Error:
		return refresp.V{K: refresp.Err, S: x.Value}, true
	case *redis.Int:
		return refresp.V{K: refresp.Int, N: x.Value}, true
	case *redis.BulkBytes:
		return refresp.V{K: refresp.Bulk, S: x.Value, Nil: x.Value == nil}, true
	case *redis.Array:
		v := refresp.V{K: refresp.Arr, Nil: x.Value == nil}
		for _, e := range x.Value {
			ev, ok := toV(e)
			if !ok {
				return v, false
			}
			v.A = append(v.A, ev)
		}
		return v, true
	}
	return refresp.V{}, false
}

func fromV(v refresp.V) redis.Resp {
	switch v.K {
	case refresp.Str:
		return &redis.String{Value: v.S}
	case refresp.Err:
		return &redis.Error{Value: v.S}
	case refresp.Int:
		return &redis.Int{Value: v.N}
	case refresp.Bulk:
		if v.Nil {
			return &redis.BulkBytes{Value: nil}
		}
		s := v.S
		if s == nil {
			s = []byte{}
		}
		return &redis.BulkBytes{Value: s}
	default:
		if v.Nil {
			return &redis.Array{Value: nil}
		}
		a := &redis.Array{Value: []redis.Resp{}}
		for _, e := range v.A {
			a.Value = append(a.Value, fromV(e))
		}
		return a
	}
}

var intEdges = []int64{-1025, -1024, -1023, -2, -1, 0, 1, 9, 10, 524286, 524287, 524288, 524289, 1<<31 - 1, 1 << 31, -(1 << 31), 1<<63 - 1, -(1 << 63), 99999999999}

func genText(r *prng.R) []byte {
	n := r.Pick(0, 1, 2, 5, 14, 15, 16, 17, 40, 300)
	b := r.Alpha(n, "abcXYZ 019_-+:$*\r\t\x00\xff\xc3")
	// a simple string cannot contain LF; CR only when not last before LF is fine
	return bytes.Replace(b, []byte("\n"), []byte("n"), -1)
}

func genBulk(r *prng.R, big bool) []byte {
	sz := r.Pick(0, 1, 2, 3, 7, 15, 16, 17, 64, 255)
	if big {
		sz = r.Pick(1023, 1024, 1025, 4095, 4096, 4097, 65536)
	}
	return r.Bytes(sz)
}

func genValue(r *prng.R, depth int, big bool) refresp.V {
	k := r.Intn(10)
	if depth >= 4 && k >= 7 {
		k = r.Intn(7)
	}
	switch {
	case k == 0:
		return refresp.V{K: refresp.Str, S: genText(r)}
	case k == 1:
		return refresp.V{K: refresp.Err, S: genText(r)}
	case k == 2:
		if r.Bool() {
			return refresp.V{K: refresp.Int, N: intEdges[r.Intn(len(intEdges))]}
		}
		return refresp.V{K: refresp.Int, N: int64(r.U64())}
	case k <= 5:
		if r.Chance(1, 8) {
			return refresp.V{K: refresp.Bulk, Nil: true}
		}
		return refresp.V{K: refresp.Bulk, S: genBulk(r, big && r.Chance(1, 3))}
	case k == 6:
		if r.Bool() {
			return refresp.V{K: refresp.Arr, Nil: true}
		}
		return refresp.V{K: refresp.Arr, A: []refresp.V{}}
	default:
		n := r.Range(1, 12)
		if depth >= 2 {
			n = r.Range(1, 4)
		}
		v := refresp.V{K: refresp.Arr, A: []refresp.V{}}
		for i := 0; i < n; i++ {
			v.A = append(v.A, genValue(r, depth+1, big))
		}
		return v
	}
}

func genCommand(r *prng.R) refresp.V {
	n := r.Range(1, 6)
	v := refresp.V{K: refresp.Arr, A: []refresp.V{}}
	for i := 0; i < n; i++ {
		v.A = append(v.A, refresp.V{K: refresp.Bulk, S: genBulk(r, false)})
	}
	if len(v.A[0].S) == 0 {
		v.A[0].S = []byte("SeT")
	}
	return v
}

func genInline(r *prng.R) ([]byte, refresp.V) {
	n := r.Range(1, 5)
	var line []byte
	v := refresp.V{K: refresp.Arr, A: []refresp.V{}, Inline: true}
	for i := 0; i < n; i++ {
		tok := r.Alpha(r.Range(1, 9), "abcdefPINGselect0123456789_.")
		if i == 0 {
			// first byte must not be a RESP type byte or LF
			tok[0] = "pPsSxq"[r.Intn(6)]
		}
		for s := r.Pick(0, 0, 0, 1, 2); s > 0 && i > 0; s-- {
			line = append(line, ' ')
		}
		if i > 0 {
			line = append(line, ' ')
		}
		line = append(line, tok...)
		v.A = append(v.A, refresp.V{K: refresp.Bulk, S: tok})
	}
	if r.Chance(1, 5) {
		line = append(line, ' ')
	}
	line = append(line, '\r', '\n')
	return line, v
}

func shape(v refresp.V, depth int) string {
	switch v.K {
	case refresp.Arr:
		if v.Nil {
			return "A-"
		}
		s := fmt.Sprintf("A%d(", len(v.A))
		for i, e := range v.A {
			if i < 3 && depth < 2 {
				s += shape(e, depth+1)
			}
		}
		return s + ")"
	case refresp.Bulk:
		if v.Nil {
			return "B-"
		}
		return fmt.Sprintf("B%d", lenClass(len(v.S)))
	case refresp.Int:
		return "I"
	}
	return string([]byte{byte(v.K)})
}

func lenClass(n int) int {
	switch {
	case n == 0:
		return 0
	case n < 16:
		return 1
	case n < 1024:
		return 2
	case n < 4097:
		return 3
	}
	return 4
}

func toolDecode(p []byte, bufsz int) (v refresp.V, rest []byte, err error, pan string) {
	defer func() {
		if x := recover(); x != nil {
			pan = fmt.Sprint(x)
		}
	}()
	br := bufio.NewReaderSize(bytes.NewReader(p), bufsz)
	resp, e := redis.Decode(br)
	if e != nil {
		return v, nil, e, ""
	}
	vv, ok := toV(resp)
	if !ok {
		return v, nil, fmt.Errorf("decoder returned an unknown Resp type %T", resp), ""
	}
	rest, _ = ioutil.ReadAll(br)
	return vv, rest, nil, ""
}

func c10(c *wk.Ctx) {
	r := c.R
	r.Rule = "random RESP value trees (depth<=4, <=12 children, bulk sizes 0..64KiB, ints at table edges) and inline lines: encode/decode round trip, byte-exact consumption, Decoder offset after every value of LF-interleaved streams read through 16/4096-byte bufio over 1-byte/odd-chunk readers; " +
		"every single-point delete/replace/insert and every truncation of each encoding <=200 bytes classified by a strict reference into must-error / valid(value) / unclassified. distinct = value shape x mutation class x outcome"
	rng := c.Rng

	// ---- (1) round trip + exact consumption
	nRT := c.N(4000, 40000)
	for i := 0; i < nRT; i++ {
		v := genValue(rng, 0, i%7 == 0)
		want := refresp.Encode(v)
		got, err := redis.EncodeToBytes(fromV(v))
		r.Case("rt|" + shape(v, 0))
		rep := map[string]interface{}{"value_encoding_hex": fmt.Sprintf("%x", trunc(want, 400))}
		if err != nil {
			r.Violationf("C10|encode|outcome=error", rep, "Encode failed: %v", err)
			continue
		}
		if !bytes.Equal(got, want) {
			r.Violationf("C10|encode|outcome=bytes-differ", rep, "Encode produced %q, RESP encoding is %q", trunc(got, 200), trunc(want, 200))
			continue
		}
		tail := rng.Bytes(rng.Intn(20))
		in := append(append([]byte{}, got...), tail...)
		dv, rest, derr, pan := toolDecode(in, 16+rng.Intn(2)*4080)
		switch {
		case pan != "":
			r.Violationf("C10|roundtrip|outcome=panic", rep, "Decode panicked: %s", pan)
		case derr != nil:
			r.Violationf("C10|roundtrip|outcome=valid-rejected", rep, "Decode(Encode(v)) failed: %v", derr)
		case !refresp.Equal(dv, v):
			r.Violationf("C10|roundtrip|outcome=value-differs", rep, "Decode(Encode(v)) != v for encoding %q", trunc(want, 200))
		case !bytes.Equal(rest, tail):
			r.Violationf("C10|roundtrip|outcome=consumed-wrong", rep, "decoder left %d bytes, value was followed by %d bytes", len(rest), len(tail))
		}
	}
	r.Count("roundtrips", int64(nRT))

	// ---- (1b) encodings are values of their own: a batch encoded first and used afterwards, and several goroutines
	// encoding and decoding at the same time (one parser and one sender per source link share the package)
	for b := 0; b < c.N(50, 1000); b++ {
		type held struct{ got, want []byte }
		var hs []held
		for k := 0; k < 30; k++ {
			v := genValue(rng, 0, false)
			got, err := redis.EncodeToBytes(fromV(v))
			if err == nil {
				hs = append(hs, held{got, refresp.Encode(v)})
			}
		}
		r.Case("rt|held-batch")
		r.Count("held_encodings", int64(len(hs)))
		for i, h := range hs {
			if !bytes.Equal(h.got, h.want) {
				r.Violationf("C10|encode|outcome=encoding-changed-after-it-was-returned", map[string]interface{}{"value_encoding_hex": fmt.Sprintf("%x", trunc(h.want, 400))}, "encoding #%d of a batch of %d reads %q after the later ones were produced, RESP encoding is %q", i, len(hs), trunc(h.got, 120), trunc(h.want, 120))
				break
			}
		}
	}
	{
		const workers = 8
		var wg sync.WaitGroup
		var mu sync.Mutex
		bad := ""
		var rounds int64
		per := c.N(500, 10000)
		for w := 0; w < workers; w++ {
			wg.Add(1)
			wr := rng.Split(uint64(0xC10000 + w))
			go func(wr *prng.R) {
				defer wg.Done()
				for i := 0; i < per; i++ {
					v := genValue(wr, 0, false)
					want := refresp.Encode(v)
					got, err := redis.EncodeToBytes(fromV(v))
					msg := ""
					if err != nil || !bytes.Equal(got, want) {
						msg = fmt.Sprintf("Encode gave %q (%v), RESP encoding is %q", trunc(got, 120), err, trunc(want, 120))
					} else if dv, _, derr, pan := toolDecode(want, 16+wr.Intn(2)*4080); pan != "" || derr != nil || !refresp.Equal(dv, v) {
						msg = fmt.Sprintf("Decode of %q gave another value (%v %s)", trunc(want, 120), derr, pan)
					}
					if msg != "" {
						mu.Lock()
						bad = fmt.Sprintf("with %d goroutines using the codec at the same time: %s", workers, msg)
						mu.Unlock()
						return
					}
					atomic.AddInt64(&rounds, 1)
				}
			}(wr)
		}
		wg.Wait()
		r.Case("rt|concurrent-codec")
		r.Count("concurrent_codec_rounds", rounds)
		if bad != "" {
			r.Violationf("C10|roundtrip|outcome=concurrent-use-corrupts-values", nil, "%s", bad)
		}
	}

	// ---- (2) streams (in child processes: MustDecodeOpt is the only API exposing the offset and it exits the process on error)
	nST := c.N(600, 6000)
	wk.RunBatch(c, "c10stream", 0, nST, nil, 10*time.Minute, func(d wk.Death) {
		if d.Result.TimedOut {
			r.Inconcl("C10 stream child watchdog: " + wk.Tail(d.Result.Stderr, 300))
			return
		}
		r.Violationf("C10|stream|outcome=valid-stream-aborts-decoder", json.RawMessage(d.Desc), "a valid RESP stream made MustDecodeOpt abort the process (exit %d): %s", d.Result.Exit, wk.Tail(d.Result.Stderr, 600))
	})

	// ---- (3) single-point corruptions and truncations
	nMU := c.N(250, 2500)
	repl := []byte("\r\n$*:+-09a _xXbeE.") // incl. the characters number parsers may give a meaning to
	var nValid, nMust, nUncl int64
	for i := 0; i < nMU; i++ {
		var base []byte
		var sh string
		for tries := 0; ; tries++ {
			if i%5 == 4 {
				base, _ = genInline(rng)
				sh = "inline"
			} else {
				v := genValue(rng, 1, false)
				if i%5 == 3 {
					v = genCommand(rng)
				}
				base = refresp.Encode(v)
				sh = shape(v, 0)
			}
			if len(base) <= 200 && len(base) > 0 {
				break
			}
		}
		judge := func(mut string, b []byte) {
			ref := refresp.Decode(b)
			if ref.Class == refresp.Unclassified {
				nUncl++
				return
			}
			dv, rest, derr, pan := toolDecode(b, 4096)
			rep := map[string]interface{}{"base": fmt.Sprintf("%q", base), "mutation": mut, "input": fmt.Sprintf("%q", b)}
			switch ref.Class {
			case refresp.MustError:
				nMust++
				r.Case("mut|" + sh + "|" + mut[:3] + "|must|" + ref.Why)
				if pan != "" {
					r.Count("rejected_by_panic", 1)
				} else if derr == nil {
					r.Violationf("C10|malformed-accepted|class="+ref.Why, rep, "malformed input (%s) %q decoded to a value %q", ref.Why, b, trunc(refresp.Encode(dv), 120))
				}
			case refresp.Valid:
				nValid++
				r.Case("mut|" + sh + "|" + mut[:3] + "|valid")
				switch {
				case pan != "":
					r.Violationf("C10|valid-input|outcome=panic", rep, "valid input %q: panic %s", b, pan)
				case derr != nil:
					r.Violationf("C10|valid-input|outcome=rejected", rep, "strictly valid input %q rejected: %v", b, derr)
				case !refresp.Equal(dv, ref.Value):
					r.Violationf("C10|valid-input|outcome=value-differs", rep, "input %q decoded to %q, reference %q", b, trunc(refresp.Encode(dv), 120), trunc(refresp.Encode(ref.Value), 120))
				case !bytes.Equal(rest, b[ref.Consumed:]):
					r.Violationf("C10|valid-input|outcome=consumed-wrong", rep, "input %q: decoder left %q, value ends at byte %d", b, rest, ref.Consumed)
				}
			}
		}
		for pos := 0; pos <= len(base); pos++ {
			if pos < len(base) {
				judge(fmt.Sprintf("del@%d", pos), append(append([]byte{}, base[:pos]...), base[pos+1:]...))
				for _, ch := range repl {
					if base[pos] == ch {
						continue
					}
					m := append([]byte{}, base...)
					m[pos] = ch
					judge(fmt.Sprintf("rep@%d=%q", pos, ch), m)
				}
				judge(fmt.Sprintf("tru@%d", pos), append([]byte{}, base[:pos]...))
			}
			for _, ch := range repl {
				m := append(append(append([]byte{}, base[:pos]...), ch), base[pos:]...)
				judge(fmt.Sprintf("ins@%d=%q", pos, ch), m)
			}
		}
	}
	// numbers written the way general-purpose integer parsers accept them but RESP does not
	for _, lit := range []string{":0x10\r\n", ":1_000\r\n", ":0b11\r\n", ":0o17\r\n", ":1e3\r\n", ":1.0\r\n", ":0X1F\r\n", ":-0x1\r\n", ":5_\r\n", ":_5\r\n",
		"$0x3\r\nabc\r\n", "$1_0\r\n0123456789\r\n", "$0b11\r\nabc\r\n", "$3.0\r\nabc\r\n", "$1e1\r\n0123456789\r\n",
		"*0x1\r\n:1\r\n", "*1_0\r\n:1\r\n:1\r\n:1\r\n:1\r\n:1\r\n:1\r\n:1\r\n:1\r\n:1\r\n:1\r\n", "*0b1\r\n:1\r\n", "*1e0\r\n:1\r\n"} {
		base, sh := []byte(lit), "literal"
		_ = base
		ref := refresp.Decode([]byte(lit))
		r.Case("lit|" + lit[:2] + "|" + fmt.Sprint(ref.Class))
		r.Count("number_syntax_literals", 1)
		if ref.Class != refresp.MustError {
			r.Inconcl(fmt.Sprintf("reference codec does not classify %q as malformed", lit))
			continue
		}
		dv, _, derr, pan := toolDecode([]byte(lit), 4096)
		if pan == "" && derr == nil {
			r.Violationf("C10|malformed-accepted|class=non-decimal-number", map[string]interface{}{"input": fmt.Sprintf("%q", lit), "shape": sh}, "input %q (a number in a syntax RESP does not have) decoded to a value %q", lit, trunc(refresp.Encode(dv), 120))
		}
	}
	// truncations of large values: a command whose bulk arguments run to tens of kilobytes of text (CR LF inside the
	// payload), cut directly after an inner CR LF, at random places and just before its end: a strict prefix of one value
	// is incomplete, whatever it happens to end in
	for li, size := range []int{300, 5000, 17000, 40000, 70000, 140000} {
		lr := rng.At(uint64(0x7B16 + li))
		payload := make([]byte, 0, size+64)
		for len(payload) < size {
			payload = append(payload, []byte(fmt.Sprintf("line %d of a script or text value#%x", len(payload), lr.U64()))...)
			payload = append(payload, '\r', '\n')
		}
		payload = payload[:size]
		v := refresp.V{K: refresp.Arr, A: []refresp.V{{K: refresp.Bulk, S: []byte("SET")}, {K: refresp.Bulk, S: []byte("key")}, {K: refresp.Bulk, S: payload}}}
		base := refresp.Encode(v)
		var cuts []int
		for p := 40; p < len(base)-2; p++ {
			if base[p-2] == '\r' && base[p-1] == '\n' && lr.Chance(1, 1+size/2000) {
				cuts = append(cuts, p)
			}
		}
		for k := 0; k < 12; k++ {
			cuts = append(cuts, lr.Range(1, len(base)-1))
		}
		cuts = append(cuts, len(base)-1, len(base)-2, len(base)-3)
		for _, p := range cuts {
			b := base[:p]
			r.Count("large_value_truncations", 1)
			if ref := refresp.Decode(b); ref.Class != refresp.MustError {
				r.Inconcl(fmt.Sprintf("reference codec does not classify a %d-byte prefix of a %d-byte command as malformed", p, len(base)))
				continue
			}
			dv, _, derr, pan := toolDecode(b, 4096)
			if pan == "" && derr == nil {
				r.Violationf("C10|malformed-accepted|class=truncated-large-value", map[string]interface{}{"bulk_bytes": size, "cut_at": p, "input_tail": fmt.Sprintf("%q", trunc(b[maxI(0, p-40):], 60))}, "a command with a %d-byte bulk argument cut after %d of %d bytes decoded to a value (%d bytes when re-encoded)", size, p, len(base), len(refresp.Encode(dv)))
				break
			}
		}
		r.Case(fmt.Sprintf("large-trunc|%d", size))
	}
	r.Count("mutants_valid_by_reference", nValid)
	r.Count("mutants_must_error", nMust)
	r.Count("mutants_unclassified_skipped", nUncl)

	// ---- (4) command extraction
	for i := 0; i < c.N(2000, 20000); i++ {
		v := genCommand(rng)
		cmd, args, err := redis.ParseArgs(fromV(v))
		r.Case("")
		rep := fmt.Sprintf("%q", refresp.Encode(v))
		if err != nil {
			r.Violationf("C10|parseargs|outcome=error", rep, "ParseArgs failed on a command: %v", err)
			continue
		}
		if cmd != string(bytes.ToLower(v.A[0].S)) || len(args) != len(v.A)-1 {
			r.Violationf("C10|parseargs|outcome=wrong", rep, "ParseArgs gave cmd=%q nargs=%d", cmd, len(args))
			continue
		}
		for j := range args {
			if !bytes.Equal(args[j], v.A[j+1].S) {
				r.Violationf("C10|parseargs|outcome=arg-differs", rep, "ParseArgs arg %d differs", j)
			}
		}
		back, ok := toV(redis.ChangeArgsToResp(v.A[0].S, args))
		if !ok || !refresp.Equal(back, v) {
			r.Violationf("C10|changeargs|outcome=differs", rep, "ChangeArgsToResp(ParseArgs(x)) != x")
		}
	}
	for _, bad := range []redis.Resp{&redis.Int{Value: 3}, &redis.Array{Value: []redis.Resp{}}, &redis.Array{Value: []redis.Resp{&redis.Int{Value: 1}}}, &redis.BulkBytes{Value: []byte("x")}} {
		if _, _, err := redis.ParseArgs(bad); err == nil {
			r.Violationf("C10|parseargs|outcome=non-command-accepted", fmt.Sprintf("%T", bad), "ParseArgs accepted a non-command %T", bad)
		}
	}
	r.Floor("mutants_must_error", 1000)
	r.Floor("mutants_valid_by_reference", 1000)
	r.Floor("stream_values", 1000)
	r.Sample(map[string]interface{}{"kind": "stream", "bytes": "\\n\\n*2\\r\\n$3\\r\\nSeT\\r\\n$1\\r\\nk\\r\\n\\nPING x\\r\\n", "checked": "offset after each value == bytes consumed incl. LFs"})
	r.Sample(map[string]interface{}{"kind": "mutation", "base": "$3\\r\\nfoo\\r\\n", "mutant": "$3\\r\\nfoo\\n\\n", "reference_class": "must-error/missing-crlf"})
	r.Assume("strict reference codec (lib/refresp); numeric forms that strconv accepts but RESP does not (+5, 007, -0) and LFs before nested type bytes are 'unclassified' and skipped, counted in evidence")
}

func init() { wk.RegisterChild("c10stream", c10stream) }

func c10stream(raw json.RawMessage, scratch string) {
	a := wk.ParseBatchArg(raw, nil)
	r := wk.ChildRes("C10")
	base := prng.New(a.Seed).Split(0xC10)
	for i := a.Start; i < a.End; i++ {
		rng := base.At(uint64(i))
		n := rng.Range(1, 50)
		var stream []byte
		var vals []refresp.V
		var ends []int
		kinds := ""
		for j := 0; j < n; j++ {
			for k := rng.Pick(0, 0, 0, 1, 2, 5); k > 0; k-- {
				stream = append(stream, '\n')
			}
			switch rng.Intn(5) {
			case 0:
				line, v := genInline(rng)
				stream = append(stream, line...)
				vals = append(vals, v)
				kinds += "i"
			case 1:
				v := genValue(rng, 1, j%9 == 0)
				stream = append(stream, refresp.Encode(v)...)
				vals = append(vals, v)
				kinds += "v"
			default:
				v := genCommand(rng)
				stream = append(stream, refresp.Encode(v)...)
				vals = append(vals, v)
				kinds += "c"
			}
			ends = append(ends, len(stream))
		}
		bufsz := rng.Pick(16, 16, 4096, 4096, 100)
		cr := &chunkReader{p: stream, rng: rng.Split(uint64(i)), mode: rng.Intn(3)}
		dec := redis.NewDecoder(bufio.NewReaderSize(cr, bufsz))
		var got []redis.Resp
		bad := false
		wk.ChildCase(i, map[string]interface{}{"stream_hex": fmt.Sprintf("%x", trunc(stream, 1200)), "bufio": bufsz, "reader_mode": cr.mode})
		rep := map[string]interface{}{"stream_hex": fmt.Sprintf("%x", trunc(stream, 600)), "bufio": bufsz, "reader_mode": cr.mode, "kinds": kinds}
		for j := 0; j < n && !bad; j++ {
			resp, off := redis.MustDecodeOpt(dec)
			got = append(got, resp)
			if off != int64(ends[j]) {
				kind := map[byte]string{'i': "inline", 'v': "value", 'c': "command"}[kinds[j]]
				r.Violationf("C10|offset|after="+kind, rep, "after value #%d (%s) Decoder offset=%d, bytes consumed=%d", j, kind, off, ends[j])
				bad = true
			}
		}
		for j := 0; j < len(got) && !bad; j++ {
			gv, ok := toV(got[j])
			if !ok || !refresp.Equal(gv, vals[j]) {
				r.Violationf("C10|stream|outcome=value-differs-after-later-reads", rep, "value #%d of the stream differs from what was sent once the whole stream has been decoded (got %q)", j, trunc(refresp.Encode(gv), 120))
				bad = true
			}
		}
		r.Case(fmt.Sprintf("stream|%d|%d|%s", bufsz, cr.mode, trunc([]byte(kinds), 6)))
		r.Count("stream_values", int64(n))
	}
	wk.ChildDone(r)
}

func trunc(b []byte, n int) []byte {
	if len(b) > n {
		return b[:n]
	}
	return b
}

func maxI(a, b int) int {
	if a > b {
		return a
	}
	return b
}
