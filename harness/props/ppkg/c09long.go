package ppkg

import (
	"encoding/binary"
	"encoding/json"
	"fmt"
	"io"

	"github.com/alibaba/RedisShake/pkg/libs/io/pipe"

	"verif/harness/lib/wk"
)

// Long-haul stage of C09: the positions of a pipe grow with every byte; a sync that streams for hours moves more than
// 2^32 bytes through one pipe without it ever being empty. One goroutine alternates Write and Read so that the pipe
// always holds data; every 8 bytes carry their own stream offset, so a byte that arrives twice, is skipped or comes
// out of place is seen immediately, as is a Buffered/Available count that stops adding up to the capacity.

func init() { wk.RegisterChild("c09long", c09longChild) }

type c09longCase struct {
	Index    int    `json:"index"`
	Capacity int    `json:"capacity"`
	Chunk    int    `json:"chunk"`
	Total    uint64 `json:"stream_bytes"`
}

func c09longChild(raw json.RawMessage, scratch string) {
	a := wk.ParseBatchArg(raw, nil)
	r := wk.ChildRes("C09")
	for i := a.Start; i < a.End; i++ {
		cs := &c09longCase{Index: i, Capacity: []int{192 << 10, 1 << 20, 12 << 10}[i%3], Chunk: []int{64 << 10, 256 << 10, 4 << 10}[i%3], Total: 1<<32 + 3<<20}
		wk.ChildCase(i, cs)
		rd, wr := pipe.NewSize(cs.Capacity)
		capacity := cs.Capacity
		if n, err := wr.Available(); err == nil {
			capacity = n // the aligned capacity
		}
		wbuf := make([]byte, cs.Chunk)
		rbuf := make([]byte, cs.Chunk)
		var wpos, rpos uint64
		fill := func() {
			for k := 0; k+8 <= len(wbuf); k += 8 {
				binary.LittleEndian.PutUint64(wbuf[k:], wpos+uint64(k))
			}
		}
		bad := ""
		// keep one chunk in the pipe at all times
		fill()
		if n, err := wr.Write(wbuf); err != nil || n != len(wbuf) {
			bad = fmt.Sprintf("first Write = %d, %v", n, err)
		}
		wpos += uint64(len(wbuf))
		for bad == "" && wpos < cs.Total {
			fill()
			if n, err := wr.Write(wbuf); err != nil || n != len(wbuf) {
				bad = fmt.Sprintf("Write at stream offset %d = %d, %v", wpos, n, err)
				break
			}
			wpos += uint64(len(wbuf))
			if n, err := io.ReadFull(rd, rbuf); err != nil || n != len(rbuf) {
				bad = fmt.Sprintf("Read at stream offset %d = %d, %v", rpos, n, err)
				break
			}
			for k := 0; k+8 <= len(rbuf); k += 8 {
				if got := binary.LittleEndian.Uint64(rbuf[k:]); got != rpos+uint64(k) {
					bad = fmt.Sprintf("the reader got, at stream offset %d, the bytes that were written at offset %d (capacity %d, %d bytes written so far)", rpos+uint64(k), got, capacity, wpos)
					break
				}
			}
			rpos += uint64(len(rbuf))
			if wpos>>20%64 == 0 && wpos%(1<<20) < uint64(len(wbuf)) { // every 64 MiB
				nb, _ := rd.Buffered()
				na, _ := wr.Available()
				if uint64(nb) != wpos-rpos || nb+na != capacity {
					bad = fmt.Sprintf("after %d bytes: Buffered=%d (model %d), Available=%d, capacity %d", wpos, nb, wpos-rpos, na, capacity)
				}
			}
		}
		if bad == "" {
			wr.Close()
			rest, err := io.ReadAll(rd)
			if (err != nil && err.Error() != "EOF") || uint64(len(rest)) != wpos-rpos {
				bad = fmt.Sprintf("after the writer closed: drained %d bytes (%v), %d were outstanding", len(rest), err, wpos-rpos)
			}
		}
		rd.Close()
		r.Case(fmt.Sprintf("long-haul|cap%d|chunk%d", cs.Capacity, cs.Chunk))
		r.Count("long_haul_streams", 1)
		r.Count("long_haul_gib_streamed", int64(wpos>>30))
		if bad != "" {
			r.Violation("C09|mem|long-haul|outcome=stream-corrupted-or-stuck", "more than 2^32 bytes through one memory pipe that is never empty: "+bad, cs)
		}
	}
	wk.ChildDone(r)
}
