package pshake

import (
	"bufio"
	"bytes"
	"encoding/json"
	"fmt"
	"io"
	"strconv"
	"strings"
	"sync"
	"time"

	"golang.org/x/sync/semaphore"

	"github.com/alibaba/RedisShake/pkg/libs/log"
	"github.com/alibaba/RedisShake/redis-shake/dbSync"
	"github.com/alibaba/RedisShake/redis-shake/dbSync/slot"

	"verif/harness/lib/fakesource"
	"verif/harness/lib/miniredis"
	"verif/harness/lib/prng"
	"verif/harness/lib/wk"
)

func init() {
	wk.Register("C03", c03)
	wk.RegisterChild("c03cfg", c03cfgChild)
	wk.RegisterChild("c03trickle", c03trickleChild)
}

type c03case struct {
	Index   int      `json:"index"`
	Mode    string   `json:"mode"` // e2e | isolated
	Cfg     e2eCfg   `json:"config"`
	N       int      `json:"commands"`
	DBs     []int    `json:"source_dbs"`
	StartDB int      `json:"start_db"`
	Plan    string   `json:"arrival_plan"`
	GapMs   int      `json:"gap_ms,omitempty"`
	Stream  []string `json:"stream_head,omitempty"`
	Pair    string   `json:"runs_next_to_another_syncer,omitempty"`
	OpenTx  bool     `json:"stream_starts_inside_a_transaction,omitempty"`
}

func genC03cfg(rng *prng.R, cfgIdx int) e2eCfg {
	c := e2eCfg{TargetDB: -1, SenderCount: uint(rng.Pick(1, 2, 3, 1024)), SenderSize: uint64(rng.Pick(1, 64, 65535, 1<<30-1)), Parallel: 2, Metric: true}
	switch cfgIdx % 10 {
	case 8: // a fixed target database together with a database list that excludes that very number on the source
		c.TargetDB = 0
		c.DBWhite = []string{"2", "3"}
	case 9:
		c.TargetDB = 3
		c.DBBlack = []string{"3", "1"}
	case 1:
		c.TargetDB = rng.Pick(0, 3)
	case 2:
		c.DBWhite = []string{"0", "2"}
	case 3:
		c.DBBlack = []string{"1"}
	case 4:
		c.KeyWhite = []string{"ok:"}
	case 5:
		c.KeyBlack = []string{"no:"}
	case 6:
		c.Lua = true
		c.TargetDB = rng.Pick(-1, 3)
	case 7:
		c.Resume = true
	}
	return c
}

// timedWriter feeds bytes into the sink following an arrival plan.
func feedPlan(plan string, gap time.Duration, cmds []srcCmd, feed func([]byte)) (lastByteAt time.Time) {
	switch plan {
	case "all":
		feed(streamBytes(cmds))
	case "behind-slow-flush":
		k := 2
		if k > len(cmds) {
			k = len(cmds)
		}
		feed(streamBytes(cmds[:k]))
		time.Sleep(560 * time.Millisecond) // the ticker flushes the first commands; that flush is slow
		feed(streamBytes(cmds[k:]))
	case "per-command":
		for i := range cmds {
			feed(encodeCmd(&cmds[i]))
			time.Sleep(time.Millisecond)
		}
	case "split-bytes": // commands cut at arbitrary byte positions
		b := streamBytes(cmds)
		for len(b) > 0 {
			n := 1 + len(b)/7
			if n > len(b) {
				n = len(b)
			}
			feed(b[:n])
			b = b[n:]
			time.Sleep(300 * time.Microsecond)
		}
	default: // "gaps": groups separated by a gap around the 500 ms flush ticker
		per := len(cmds)/4 + 1
		for i := 0; i < len(cmds); i += per {
			j := i + per
			if j > len(cmds) {
				j = len(cmds)
			}
			feed(streamBytes(cmds[i:j]))
			if j < len(cmds) {
				time.Sleep(gap)
			}
		}
	}
	return time.Now()
}

func stripPings(in []fwdCmd) (out []fwdCmd, pings int) {
	for _, f := range in {
		if f.Name == "ping" {
			pings++
			continue
		}
		out = append(out, f)
	}
	return
}

func compareForward(r resIface, c *c03case, want, got []fwdCmd, strayTx int, lastByteAt time.Time, complete bool) {
	want, _ = stripPings(want)
	got, _ = stripPings(got)
	sig := func(o string) string {
		f := "none"
		switch {
		case c.Cfg.TargetDB != -1:
			f = "targetdb"
		case len(c.Cfg.DBWhite)+len(c.Cfg.DBBlack) > 0:
			f = "dbfilter"
		case len(c.Cfg.KeyWhite)+len(c.Cfg.KeyBlack) > 0:
			f = "keyfilter"
		case c.Cfg.Lua:
			f = "lua"
		}
		return fmt.Sprintf("C03|mode=%s|outcome=%s|config=%s|resume=%v", c.Mode, o, f, c.Cfg.Resume)
	}
	for i := 0; i < len(want) && i < len(got); i++ {
		w, g := want[i], got[i]
		if w.Name == g.Name && eqArgv(w.Args, g.Args) && w.DB == g.DB {
			continue
		}
		o := "command-differs"
		switch {
		case w.Name == g.Name && eqArgv(w.Args, g.Args):
			o = "wrong-database"
		case i+1 < len(got) && got[i+1].key() == w.key():
			o = "extra-command-applied"
		case i+1 < len(want) && want[i+1].key() == g.key():
			o = "command-lost"
		case w.Name == g.Name:
			o = "arguments-differ"
		}
		r.Violation(sig(o), fmt.Sprintf("target command #%d is [%s], the filtered source stream has [%s] there", i, g.key(), w.key()), c)
		return
	}
	if len(got) > len(want) {
		r.Violation(sig("extra-command-applied"), fmt.Sprintf("target applied %d data commands, the filtered source stream has %d; first extra: [%s]", len(got), len(want), got[len(want)].key()), c)
		return
	}
	if len(got) < len(want) {
		o := "command-lost"
		if !complete {
			o = "not-flushed-in-bounded-time"
		}
		r.Violation(sig(o), fmt.Sprintf("%d of %d forwarded commands reached the target %.1fs after the last source byte; first missing: [%s]", len(got), len(want), time.Since(lastByteAt).Seconds(), want[len(got)].key()), c)
		return
	}
	if strayTx > 0 && !c.Cfg.Resume {
		r.Violation(sig("multi-exec-at-target"), fmt.Sprintf("%d MULTI/EXEC commands reached the target although resume is off (source markers must not be applied)", strayTx), c)
	}
}

func runC03e2e(r resIface, c *c03case, rng *prng.R) {
	cmds := genStream(rng, streamOpts{N: c.N, DBs: c.DBs, Tx: true, Keys: 6, KeyPrefix: prefixesFor(&c.Cfg), StartDB: -1, Lua: true, Sentinel: true, LFs: true, OpenTx: c.OpenTx})
	for i := 0; i < len(cmds) && i < 12; i++ {
		c.Stream = append(c.Stream, cmds[i].String())
	}
	if inChild {
		wk.ChildCase(c.Index, c)
	}
	sc := fakesource.Script{RunID: e2eRunID, StartOffset: int64(rng.Pick(0, 1, 5000, 1<<31-3)), RDB: minimalRDB(rng, nil)}
	e, err := startE2E(&c.Cfg, sc, nil, false)
	if err != nil {
		r.Inconcl("startE2E: " + err.Error())
		return
	}
	// wait until the full phase is over (the incremental connection exists)
	want := expectedForward(cmds, &c.Cfg, 0)
	lastAt := feedPlan(c.Plan, time.Duration(c.GapMs)*time.Millisecond, cmds, e.Src.Feed)
	wantData, _ := stripPings(want)
	count := func() int {
		lg := e.DataLog()
		got, _, _ := appliedCommands(lg, e.Src.Addr, incrConnOf(lg))
		g, _ := stripPings(got)
		return len(g)
	}
	complete := waitUntil(5*time.Second+time.Duration(c.N)*2*time.Millisecond, func() bool { return count() >= len(wantData) })
	lat := time.Since(lastAt)
	if complete {
		time.Sleep(30 * time.Millisecond) // let duplicates, if any, show up
	}
	lg := e.DataLog()
	got, _, tx := appliedCommands(lg, e.Src.Addr, incrConnOf(lg))
	r.Case(fmt.Sprintf("e2e|%s|sc%d|ss%d|tdb%d|%s", cfgClass(&c.Cfg), c.Cfg.SenderCount, c.Cfg.SenderSize, c.Cfg.TargetDB, c.Plan))
	r.Count("streams_e2e", 1)
	if c.OpenTx {
		r.Count("streams_starting_inside_a_transaction", 1)
	}
	r.Count("source_commands", int64(len(cmds)))
	r.Count("forwarded_commands", int64(len(wantData)))
	r.Max("max_flush_latency_ms", lat.Milliseconds())
	compareForward(r, c, want, got, tx, lastAt, complete)
}

func prefixesFor(cfg *e2eCfg) []string {
	if len(cfg.KeyWhite)+len(cfg.KeyBlack) > 0 {
		return []string{"ok:", "no:", "ok:", ""}
	}
	return nil
}

func cfgClass(c *e2eCfg) string {
	s := []string{}
	if c.Resume {
		s = append(s, "resume")
	}
	if len(c.DBWhite) > 0 {
		s = append(s, "dbw")
	}
	if len(c.DBBlack) > 0 {
		s = append(s, "dbb")
	}
	if len(c.KeyWhite) > 0 {
		s = append(s, "kw")
	}
	if len(c.KeyBlack) > 0 {
		s = append(s, "kb")
	}
	if c.Lua {
		s = append(s, "lua")
	}
	return strings.Join(s, "+")
}

// isolated pair: parser + sender only, in-process connection recording the Send/Flush partition
func runC03isolated(r resIface, c *c03case, rng *prng.R) {
	cmds := genStream(rng, streamOpts{N: c.N, DBs: c.DBs, Tx: true, Keys: 6, KeyPrefix: prefixesFor(&c.Cfg), StartDB: c.StartDB, Lua: true, Sentinel: true, LFs: true, OpenTx: c.OpenTx})
	for i := 0; i < len(cmds) && i < 12; i++ {
		c.Stream = append(c.Stream, cmds[i].String())
	}
	if inChild {
		wk.ChildCase(c.Index, c)
	}
	srv := miniredis.NewServer()
	conn := srv.NewConn()
	conn.BlockReceive = true
	if c.Plan == "behind-slow-flush" {
		// the target is slow for one flush: commands pile up behind it, then the stream goes idle
		slowAt := 1 + rng.Intn(2)
		d := time.Duration(rng.Range(520, 900)) * time.Millisecond
		conn.SlowFlush = func(nth int) {
			if nth == slowAt {
				time.Sleep(d)
			}
		}
	}
	pr, pw := io.Pipe()
	e2eIDs.Lock()
	e2eIDs.n++
	id := e2eIDs.n
	e2eIDs.Unlock()
	node := &slot.SyncNode{Id: id, Source: "10.9.8.7:6379", SourcePassword: e2eSrcPw, Target: []string{"127.0.0.1:1"}, TargetPassword: e2eTgtPw, SlotLeftBoundary: -1, SlotRightBoundary: -1}
	ds := dbSync.NewDbSyncer(node, 9320, semaphore.NewWeighted(1))
	startDb := c.StartDB
	if startDb < 0 {
		startDb = 0
	}
	if startDb != 0 {
		// resumed start: the tool re-selects the recorded database on the (fresh, db 0) target connection
	}
	ds.VerifRunIncr(bufio.NewReaderSize(pr, 1<<16), conn, startDb, e2eRunID, 1000, c.Cfg.SenderCount, 65535)
	want := expectedForward(cmds, &c.Cfg, startDb)
	lastAt := feedPlan(c.Plan, time.Duration(c.GapMs)*time.Millisecond, cmds, func(b []byte) { pw.Write(b) })
	wantData, _ := stripPings(want)
	count := func() int {
		srv.Mu.Lock()
		lg := append([]miniredis.Logged{}, srv.Log...)
		srv.Mu.Unlock()
		got, _, _ := appliedCommands(lg, node.Source, conn.Sess.ID)
		g, _ := stripPings(got)
		return len(g)
	}
	complete := waitUntil(5*time.Second+time.Duration(c.N)*2*time.Millisecond, func() bool { return count() >= len(wantData) })
	lat := time.Since(lastAt)
	if complete {
		time.Sleep(10 * time.Millisecond)
	}
	srv.Mu.Lock()
	lg := append([]miniredis.Logged{}, srv.Log...)
	srv.Mu.Unlock()
	got, _, tx := appliedCommands(lg, node.Source, conn.Sess.ID)
	// batch partition evidence
	part := []string{}
	flushes := conn.FlushesSnapshot()
	for _, f := range flushes {
		part = append(part, fmt.Sprint(len(f)))
		if len(part) > 12 {
			break
		}
	}
	r.Case(fmt.Sprintf("iso|%s|sc%d|ss%d|tdb%d|%s|start%d|part%s", cfgClass(&c.Cfg), c.Cfg.SenderCount, c.Cfg.SenderSize, c.Cfg.TargetDB, c.Plan, c.StartDB, strings.Join(part, ",")))
	r.Count("streams_isolated", 1)
	if c.OpenTx {
		r.Count("streams_starting_inside_a_transaction", 1)
	}
	r.Count("source_commands", int64(len(cmds)))
	r.Count("forwarded_commands", int64(len(wantData)))
	r.Count("flush_batches_observed", int64(len(flushes)))
	r.Max("max_flush_latency_ms", lat.Milliseconds())
	compareForward(r, c, want, got, tx, lastAt, complete)
	_ = bytes.Equal
}

type c03extra struct {
	CfgIdx int `json:"cfg"`
}

func c03cfgChild(raw json.RawMessage, scratch string) {
	var ex c03extra
	a := wk.ParseBatchArg(raw, &ex)
	log.SetLevel(log.LEVEL_NONE)
	r := wk.ChildRes("C03")
	inChild = true
	base := prng.New(a.Seed).Split(0xC03)
	cfg := genC03cfg(base.At(uint64(1000000+ex.CfgIdx)), ex.CfgIdx)
	cfg.apply()
	for i := a.Start; i < a.End; i++ {
		rng := base.At(uint64(i))
		c := &c03case{Index: i, Cfg: cfg, N: rng.Pick(1, 2, 5, 30, 120, 400), Plan: rng.PickS("all", "all", "per-command", "split-bytes", "gaps", "gaps", "behind-slow-flush")}
		c.DBs = [][]int{{0}, {0, 1}, {0, 1, 2, 3}, {2, 5}, {3}, {1, 10, 2}, {12, 300, 2}, {0, 256, 31}}[rng.Intn(8)] // incl. database numbers of two and three digits
		if cfg.TargetDB != -1 && rng.Bool() {
			c.DBs = append(c.DBs, cfg.TargetDB) // the stream also selects the configured target database itself
		}
		if c.Plan == "gaps" {
			c.GapMs = 480 + 5*rng.Intn(9) // 480..520 ms around the 500 ms ticker
			if rng.Chance(1, 4) {
				c.GapMs = 1200
			}
		}
		c.StartDB = -1
		c.OpenTx = i%5 == 2
		c.Mode = "isolated"
		if i%3 == 0 && c.Plan != "behind-slow-flush" {
			c.Mode = "e2e"
		}
		if c.Mode == "isolated" && cfg.Resume && rng.Bool() {
			c.StartDB = rng.Pick(0, 2)
			if c.StartDB != 0 && !containsInt(c.DBs, c.StartDB) {
				c.DBs = append(c.DBs, c.StartDB)
			}
		}
		wk.ChildCase(i, c)
		if c.Mode == "e2e" {
			runC03e2e(r, c, rng)
		} else if i%4 == 1 && c.Plan != "behind-slow-flush" {
			// the tool runs one syncer per source: two syncers (own stream, own target connection) work through their
			// streams at the same time, one command per millisecond, so that their transactions, SELECTs and flushes overlap
			c.Plan, c.Pair = "per-command", "first of two"
			if c.N < 120 {
				c.N = 120
			}
			c2 := *c
			c2.Pair, c2.Stream = "second of two", nil
			var pair sync.WaitGroup
			pair.Add(1)
			go func() { defer pair.Done(); runC03isolated(r, &c2, rng.Split(0x2D)) }()
			runC03isolated(r, c, rng)
			pair.Wait()
			r.Count("syncer_pairs_run_side_by_side", 1)
		} else {
			runC03isolated(r, c, rng)
		}
		if i == a.Start {
			r.Sample(c)
		}
	}
	wk.ChildDone(r)
}

// c03trickleChild: one trickle stream per case, under the filter variants of genC03cfg with thresholds out of reach.
func c03trickleChild(raw json.RawMessage, scratch string) {
	a := wk.ParseBatchArg(raw, nil)
	log.SetLevel(log.LEVEL_NONE)
	r := wk.ChildRes("C03")
	inChild = true
	base := prng.New(a.Seed).Split(0xC03)
	for i := a.Start; i < a.End; i++ {
		rng := base.At(uint64(i))
		cfg := genC03cfg(rng, i)
		cfg.SenderCount, cfg.SenderSize = 1024, 1<<30-1
		cfg.apply()
		c := &c03case{Index: i, Cfg: cfg, Mode: "isolated", Plan: "trickle", N: 24}
		wk.ChildCase(i, c)
		if i%2 == 1 {
			c.Plan = "idle-inside-transaction"
			runC03txpause(r, c, rng)
			continue
		}
		runC03trickle(r, c, rng)
	}
	wk.ChildDone(r)
}

// runC03txpause: the stream goes idle in the middle of a source transaction (MULTI seen, EXEC not yet). The commands
// received so far are forwarded commands like any other: they reach the target within bounded time although their
// EXEC marker has not arrived.
func runC03txpause(r resIface, c *c03case, rng *prng.R) {
	pfx := prefixesFor(&c.Cfg)
	if len(pfx) == 0 {
		pfx = []string{""}
	}
	key := func(n int) []byte { return []byte(fmt.Sprintf("%skey%d", pfx[n%len(pfx)], n)) }
	mk := func(name string, args ...[]byte) srcCmd { return srcCmd{Name: name, Args: args} }
	db := rng.Pick(0, 2)
	head := []srcCmd{mk("SELECT", []byte(strconv.Itoa(db))), mk("SET", key(1), []byte("a")), mk("MULTI"), mk("SET", key(2), []byte("b")), mk("RPUSH", key(3), []byte("x"), []byte("y"))}
	tail := []srcCmd{mk("SET", key(4), []byte("c")), mk("EXEC"), mk("SET", key(5), []byte("d"))}
	all := append(append([]srcCmd{}, head...), tail...)
	streamBytesWithEnds(all)
	srv := miniredis.NewServer()
	conn := srv.NewConn()
	conn.BlockReceive = true
	pr, pw := io.Pipe()
	e2eIDs.Lock()
	e2eIDs.n++
	id := e2eIDs.n
	e2eIDs.Unlock()
	node := &slot.SyncNode{Id: id, Source: "10.9.8.5:6379", Target: []string{"127.0.0.1:1"}, SlotLeftBoundary: -1, SlotRightBoundary: -1}
	ds := dbSync.NewDbSyncer(node, 9320, semaphore.NewWeighted(1))
	ds.VerifRunIncr(bufio.NewReaderSize(pr, 1<<16), conn, 0, e2eRunID, 1000, c.Cfg.SenderCount, 65535)
	applied := func() []fwdCmd {
		srv.Mu.Lock()
		lg := append([]miniredis.Logged{}, srv.Log...)
		srv.Mu.Unlock()
		got, _, _ := appliedCommands(lg, node.Source, conn.Sess.ID)
		g, _ := stripPings(got)
		return g
	}
	wantHead, _ := stripPings(expectedForward(all[:len(head)], &c.Cfg, 0))
	wantAll, _ := stripPings(expectedForward(all, &c.Cfg, 0))
	t0 := time.Now()
	pw.Write(streamBytes(all[:len(head)]))
	inTime := waitUntil(2500*time.Millisecond, func() bool { return len(applied()) >= len(wantHead) })
	lat := time.Since(t0)
	gotHead := len(applied())
	time.Sleep(300 * time.Millisecond)
	pw.Write(streamBytes(all[len(head):]))
	waitUntil(5*time.Second, func() bool { return len(applied()) >= len(wantAll) })
	r.Case(fmt.Sprintf("txpause|%s|sc%d|resume%v", cfgClass(&c.Cfg), c.Cfg.SenderCount, c.Cfg.Resume))
	r.Count("streams_idle_inside_a_transaction", 1)
	if len(wantHead) > 0 && !inTime {
		r.Violation(fmt.Sprintf("C03|mode=isolated|outcome=not-flushed-while-a-source-transaction-is-open|resume=%v", c.Cfg.Resume), fmt.Sprintf("the stream went idle after MULTI and %d forwarded commands; %.1fs later the target had received %d of them (the EXEC marker had not been sent yet; flush period 0.5 s, sender.count %d)", len(wantHead), lat.Seconds(), gotHead, c.Cfg.SenderCount), c)
		return
	}
	if g := applied(); len(g) != len(wantAll) {
		r.Violation(fmt.Sprintf("C03|mode=isolated|outcome=command-lost|config=txpause|resume=%v", c.Cfg.Resume), fmt.Sprintf("after the rest of the transaction arrived the target has %d of %d commands", len(g), len(wantAll)), c)
	}
}

// runC03trickle: "every forwarded command reaches the target within bounded time" judged per command while the
// stream keeps flowing. The tool flushes at least every 500 ms; the bound used is five times that. A machine too
// loaded to keep a 20 ms timer within 700 ms makes the case inconclusive instead.
func runC03trickle(r resIface, c *c03case, rng *prng.R) {
	db := rng.Pick(0, 1, 3)
	cmds := genStream(rng, streamOpts{N: c.N, DBs: []int{db}, Keys: 6, KeyPrefix: prefixesFor(&c.Cfg), StartDB: -1})
	// no barrier inside the trickle: drop re-SELECTs after the first command
	var flat []srcCmd
	for i, x := range cmds {
		if i > 0 && strings.EqualFold(x.Name, "select") {
			continue
		}
		flat = append(flat, x)
	}
	cmds = flat
	pos := int64(0)
	for i := range cmds {
		pos += int64(len(encodeCmd(&cmds[i])))
		cmds[i].End = pos
	}
	srv := miniredis.NewServer()
	conn := srv.NewConn()
	conn.BlockReceive = true
	pr, pw := io.Pipe()
	e2eIDs.Lock()
	e2eIDs.n++
	id := e2eIDs.n
	e2eIDs.Unlock()
	node := &slot.SyncNode{Id: id, Source: "10.9.8.6:6379", Target: []string{"127.0.0.1:1"}, SlotLeftBoundary: -1, SlotRightBoundary: -1}
	ds := dbSync.NewDbSyncer(node, 9320, semaphore.NewWeighted(1))
	ds.VerifRunIncr(bufio.NewReaderSize(pr, 1<<16), conn, 0, e2eRunID, 1000, c.Cfg.SenderCount, 65535)
	var lagMu sync.Mutex
	var maxLag time.Duration
	stopLag := make(chan struct{})
	go func() {
		for {
			select {
			case <-stopLag:
				return
			default:
			}
			t := time.Now()
			time.Sleep(20 * time.Millisecond)
			if d := time.Since(t) - 20*time.Millisecond; d > 0 {
				lagMu.Lock()
				if d > maxLag {
					maxLag = d
				}
				lagMu.Unlock()
			}
		}
	}()
	fedAt := map[int64]time.Time{}
	for i := range cmds {
		fedAt[cmds[i].End] = time.Now()
		pw.Write(encodeCmd(&cmds[i]))
		time.Sleep(time.Duration(rng.Range(150, 350)) * time.Millisecond)
	}
	want, _ := stripPings(expectedForward(cmds, &c.Cfg, 0))
	snapshot := func() []fwdCmd {
		srv.Mu.Lock()
		lg := append([]miniredis.Logged{}, srv.Log...)
		srv.Mu.Unlock()
		got, _, _ := appliedCommands(lg, node.Source, conn.Sess.ID)
		g, _ := stripPings(got)
		return g
	}
	waitUntil(5*time.Second, func() bool { return len(snapshot()) >= len(want) })
	close(stopLag)
	got := snapshot()
	lagMu.Lock()
	lag := maxLag
	lagMu.Unlock()
	r.Case(fmt.Sprintf("trickle|%s|sc%d|resume%v", cfgClass(&c.Cfg), c.Cfg.SenderCount, c.Cfg.Resume))
	r.Count("trickle_streams", 1)
	var worst time.Duration
	worstCmd := ""
	for i := 0; i < len(want) && i < len(got); i++ {
		if want[i].key() != got[i].key() {
			break // content is judged by the other cases
		}
		if d := got[i].At.Sub(fedAt[want[i].End]); d > worst {
			worst, worstCmd = d, want[i].key()
		}
		r.Count("trickle_commands_timed", 1)
	}
	r.Max("max_trickle_latency_ms", worst.Milliseconds())
	if worst > 2500*time.Millisecond {
		if lag > 700*time.Millisecond {
			r.Inconcl(fmt.Sprintf("trickle latency %v measured while the machine delayed a 20 ms timer by %v", worst, lag))
			return
		}
		r.Violation(fmt.Sprintf("C03|mode=isolated|outcome=not-flushed-in-bounded-time-while-stream-flows|resume=%v", c.Cfg.Resume), fmt.Sprintf("[%s] reached the target %.1fs after the source sent it, while commands kept arriving every 150-350 ms (sender.count %d never reached, no barrier); the tool's flush period is 0.5 s (timer lag in this process at most %v)", worstCmd, worst.Seconds(), c.Cfg.SenderCount, lag.Round(time.Millisecond)), c)
	}
}

func containsInt(xs []int, x int) bool {
	for _, v := range xs {
		if v == x {
			return true
		}
	}
	return false
}

func c03(c *wk.Ctx) {
	r := c.R
	r.Rule = "command streams from a master grammar (SELECT switches incl. re-selects and the configured target.db, single/multi-key writes in any letter case, PING, MULTI..EXEC blocks, sentinel hello publishes, EVAL/SCRIPT, opinfo, keep-alive newlines) x configurations (db white/black list, key white/black list, filter.lua, target.db, resume, sender.count {1,2,3,1024} x sender.size {1,64,65535,max}) x arrival plans (all at once, one command per ms, arbitrary byte splits, groups separated by 480..520 ms / 1.2 s gaps around the 500 ms flush ticker, a burst queued behind one slow target flush followed by silence); every third stream runs end to end through DbSyncer.Sync() against a scripted master and a loopback model target, the others through the parser+sender pair (hook) on an in-process connection that records Send/Flush boundaries; the data commands applied at the target (tool bookkeeping stripped) must equal, in order and database, the reference filter pipeline over the source stream within 5 s of the last byte; every fourth isolated case runs two syncers side by side. distinct = configuration x arrival plan x observed batch partition"
	onDeath := func(d wk.Death) {
		if d.Result.TimedOut {
			r.Inconcl("C03 child watchdog: " + wk.Tail(d.Result.Stderr, 300))
			return
		}
		var cs c03case
		json.Unmarshal(d.Desc, &cs)
		r.Violationf(fmt.Sprintf("C03|mode=%s|outcome=process-aborted", cs.Mode), json.RawMessage(d.Desc), "incremental sync ended the process (exit %d): %s", d.Result.Exit, firstPanicLine(d.Result.Stderr))
	}
	if idx, _, ok := wk.ReplayIndex(c.Replay); ok && idx >= 9000000 {
		wk.ReplayOne(c, "c03trickle", nil, onDeath)
		return
	}
	if wk.ReplayOne(c, "c03cfg", func(idx int) interface{} { return c03extra{CfgIdx: idx / 100000} }, onDeath) {
		return
	}
	ncfg := c.N(20, 60)
	per := c.N(40, 150)
	ntr := c.N(16, 160)
	wk.Parallel(ncfg+ntr, 16, func(i int) {
		if i >= ncfg {
			k := 9000000 + (i - ncfg)
			wk.RunBatch(c, "c03trickle", k, k+1, nil, 10*time.Minute, onDeath)
			return
		}
		wk.RunBatch(c, "c03cfg", i*100000, i*100000+per, c03extra{CfgIdx: i}, 40*time.Minute, onDeath)
	})
	r.Floor("streams_e2e", 100)
	r.Floor("streams_isolated", 200)
	r.Floor("syncer_pairs_run_side_by_side", 40)
	r.Floor("trickle_commands_timed", 40)
	r.Floor("streams_idle_inside_a_transaction", 6)
	r.Floor("streams_starting_inside_a_transaction", 30)
	r.Floor("flush_batches_observed", 500)
	r.Floor("forwarded_commands", 5000)
	r.Assume("reference filter pipeline (lib/reffilter + expectedForward): db filter by SELECT tracking, script commands under filter.lua, sentinel hello, opinfo, MULTI/EXEC markers dropped, key filter per C13; PINGs are stripped from both sides before comparing (the statement does not place them); in the incremental path key decisions exist only for commands in the tool's table")
	r.Assume("bounded time = 5 s (10 flush-ticker periods) after the last byte was handed to the tool; a timing verdict is therefore 10x away from the mechanism's period")
}
