package pshake

import (
	"bytes"
	"fmt"
	"strconv"
	"strings"
	"sync"
	"time"

	"golang.org/x/sync/semaphore"

	conf "github.com/alibaba/RedisShake/redis-shake/configure"
	"github.com/alibaba/RedisShake/redis-shake/dbSync"
	"github.com/alibaba/RedisShake/redis-shake/dbSync/slot"

	"verif/harness/lib/fakesource"
	"verif/harness/lib/miniredis"
	"verif/harness/lib/prng"
	"verif/harness/lib/rdbgen"
	"verif/harness/lib/reffilter"
	"verif/harness/lib/refresp"
)

const (
	e2eSrcPw = "S3NT-src-e2e"
	e2eTgtPw = "S3NT-tgt-e2e"
	e2eRunID = "f00dfeedf00dfeedf00dfeedf00dfeedf00dfeed"
	ckptKey  = "redis-shake-checkpoint"
)

// ---- source command streams

type srcCmd struct {
	Name string // as the master wrote it (any letter case)
	Args [][]byte
	LFs  int   // keep-alive newlines written before the command
	DB   int   // database selected on the source when the command was issued
	End  int64 // stream position right after the command (bytes)
	InTx bool
}

func (c srcCmd) String() string {
	s := c.Name
	for _, a := range c.Args {
		if len(a) > 24 {
			s += fmt.Sprintf(" %q...", a[:24])
		} else {
			s += fmt.Sprintf(" %q", a)
		}
	}
	return s
}

func encodeCmd(c *srcCmd) []byte {
	v := refresp.V{K: refresp.Arr, A: []refresp.V{{K: refresp.Bulk, S: []byte(c.Name)}}}
	for _, a := range c.Args {
		v.A = append(v.A, refresp.V{K: refresp.Bulk, S: a})
	}
	return append(bytes.Repeat([]byte("\n"), c.LFs), refresp.Encode(v)...)
}

type streamOpts struct {
	N         int
	DBs       []int
	Modelled  bool // only commands the model target executes (state comparisons)
	Tx        bool
	Keys      int // size of the key pool (few keys: collisions make loss/duplication visible)
	KeyPrefix []string
	StartDB   int // database assumed selected when the stream starts (-1: the stream starts with SELECT)
	Lua       bool
	Sentinel  bool
	LFs       bool
	// OpenTx: the stream is picked up inside a transaction (a resumed or continued PSYNC whose offset lies between a
	// MULTI and its EXEC): it begins with the rest of the block and an EXEC that has no MULTI before it
	OpenTx bool
}

func caseMix(rng *prng.R, s string) string {
	switch rng.Intn(4) {
	case 0:
		return strings.ToUpper(s)
	case 1:
		return s
	case 2:
		b := []byte(s)
		for i := range b {
			if rng.Bool() {
				b[i] = byte(strings.ToUpper(string(b[i]))[0])
			}
		}
		return string(b)
	}
	return strings.ToUpper(s)
}

// genStream builds a command stream the way a master emits it (SELECT before the first command and on
// every database switch, PINGs, transactions, sentinel hellos, scripts).
func genStream(rng *prng.R, o streamOpts) []srcCmd {
	var out []srcCmd
	cur := o.StartDB
	seq := 0
	key := func() []byte {
		p := ""
		if len(o.KeyPrefix) > 0 {
			p = o.KeyPrefix[rng.Intn(len(o.KeyPrefix))]
		}
		return []byte(fmt.Sprintf("%skey%d", p, rng.Intn(o.Keys)))
	}
	val := func() []byte {
		seq++
		if seq%13 == 7 {
			return []byte{} // an empty argument ($0): a value like any other, two bytes of payload frame
		}
		return []byte(fmt.Sprintf("v#%d", seq))
	}
	add := func(name string, args ...[]byte) {
		c := srcCmd{Name: caseMix(rng, name), Args: args, DB: cur}
		if o.LFs && rng.Chance(1, 8) {
			c.LFs = rng.Pick(1, 2, 5)
		}
		out = append(out, c)
	}
	sel := func(db int) {
		cur = db
		add("select", []byte(strconv.Itoa(db)))
	}
	if cur < 0 {
		sel(o.DBs[rng.Intn(len(o.DBs))])
	}
	if o.OpenTx {
		pr := rng.At(0x7A11) // derived without advancing rng: every other stream stays what it was
		for k := pr.Range(1, 3); k > 0; k-- {
			p := ""
			if len(o.KeyPrefix) > 0 {
				p = o.KeyPrefix[pr.Intn(len(o.KeyPrefix))]
			}
			out = append(out, srcCmd{Name: caseMix(pr, "set"), Args: [][]byte{[]byte(fmt.Sprintf("%skey%d", p, pr.Intn(o.Keys))), []byte(fmt.Sprintf("tail#%d", k))}, DB: cur, InTx: true})
		}
		out = append(out, srcCmd{Name: caseMix(pr, "exec"), DB: cur})
	}
	inTx := 0
	for len(out) < o.N {
		if inTx == 0 && rng.Chance(1, 6) {
			db := o.DBs[rng.Intn(len(o.DBs))]
			if db != cur || rng.Chance(1, 5) { // a master may re-select the same database
				sel(db)
			}
		}
		if o.Tx && inTx == 0 && rng.Chance(1, 10) {
			add("multi")
			inTx = rng.Range(1, 4)
			continue
		}
		if inTx > 0 && len(o.DBs) > 1 && rng.Chance(1, 4) {
			// a client may switch database inside its transaction: the master then propagates the SELECT inside the MULTI block
			db := o.DBs[rng.Intn(len(o.DBs))]
			if db != cur {
				sel(db)
				out[len(out)-1].InTx = true
			}
		}
		switch k := rng.Intn(24); {
		case k < 5:
			add("set", key(), val())
		case k < 8:
			add("incr", append([]byte("cnt:"), key()...)) // counters live on their own keys: a master only propagates commands that succeeded
		case k < 11:
			add("append", key(), val())
		case k < 13:
			add("rpush", []byte("L"+string(key())), val(), val())
		case k < 14:
			add("del", key(), key())
		case k < 15:
			add("hset", []byte("H"+string(key())), []byte("f"+strconv.Itoa(rng.Intn(3))), val())
		case k < 16:
			add("sadd", []byte("S"+string(key())), val())
		case k < 17:
			add("mset", key(), val(), key(), val())
		case k < 19 && inTx == 0:
			add("ping")
		case k < 20 && !o.Modelled && rng.Chance(1, 3):
			add(rng.PickS("flushdb", "flushall")) // a write without any argument
		case k < 20 && !o.Modelled:
			add(rng.PickS("xadd", "zunionstore", "bitop", "setrange", "linsert"), key(), val(), key())
		case k < 21 && o.Lua && inTx == 0:
			if rng.Bool() {
				add("eval", []byte("return redis.call('set',KEYS[1],ARGV[1])"), []byte("1"), key(), val())
			} else {
				add(rng.PickS("script", "evalsha"), []byte("load"), []byte("return 1"))
			}
		case k < 22 && o.Sentinel && inTx == 0:
			add("publish", []byte("__sentinel__:hello"), []byte("127.0.0.1,26379,abc,0,mymaster,127.0.0.1,6379,0"))
		case k < 23 && !o.Modelled && inTx == 0:
			add("opinfo", val())
		default:
			add("set", key(), val())
		}
		if inTx > 0 {
			out[len(out)-1].InTx = true
			inTx--
			if inTx == 0 {
				if len(o.DBs) > 1 && rng.Chance(1, 4) {
					// ... and the switch may be the transaction's last step: SELECT directly followed by EXEC
					if db := o.DBs[rng.Intn(len(o.DBs))]; db != cur {
						sel(db)
						out[len(out)-1].InTx = true
					}
				}
				add("exec")
			}
		}
	}
	if inTx > 0 {
		add("exec")
	}
	pos := int64(0)
	for i := range out {
		pos += int64(len(encodeCmd(&out[i])))
		out[i].End = pos
	}
	return out
}

func streamBytes(cmds []srcCmd) []byte {
	var b bytes.Buffer
	for i := range cmds {
		b.Write(encodeCmd(&cmds[i]))
	}
	return b.Bytes()
}

// ---- reference filter pipeline

type fwdCmd struct {
	DB   int // effective database at the target
	Name string
	Args [][]byte
	End  int64     // source stream position after the command
	At   time.Time // when the model target executed it (observed commands only)
}

func (f fwdCmd) key() string {
	s := fmt.Sprintf("db%d %s", f.DB, f.Name)
	for _, a := range f.Args {
		s += fmt.Sprintf(" %q", a)
	}
	return s
}

type e2eCfg struct {
	Resume      bool     `json:"resume"`
	TargetDB    int      `json:"target_db"`
	SenderCount uint     `json:"sender_count"`
	SenderSize  uint64   `json:"sender_size"`
	DBWhite     []string `json:"db_whitelist,omitempty"`
	DBBlack     []string `json:"db_blacklist,omitempty"`
	KeyWhite    []string `json:"key_whitelist,omitempty"`
	KeyBlack    []string `json:"key_blacklist,omitempty"`
	Lua         bool     `json:"filter_lua"`
	Parallel    int      `json:"parallel"`
	Metric      bool     `json:"metric"`
}

func (c *e2eCfg) ref() *reffilter.Config {
	return &reffilter.Config{KeyBlack: c.KeyBlack, KeyWhite: c.KeyWhite, DBBlack: c.DBBlack, DBWhite: c.DBWhite, Lua: c.Lua}
}

func (c *e2eCfg) apply() {
	conf.Options = conf.Configuration{Id: "verif", SourceType: conf.RedisTypeStandalone, TargetType: conf.RedisTypeStandalone, SourceAuthType: "auth", TargetAuthType: "auth",
		SourcePasswordRaw: e2eSrcPw, TargetPasswordRaw: e2eTgtPw, Parallel: c.Parallel, HttpProfile: 9320, Psync: true, ResumeFromBreakPoint: c.Resume, TargetDB: c.TargetDB,
		SenderCount: c.SenderCount, SenderSize: c.SenderSize, SenderDelayChannelSize: 65535, Metric: c.Metric, KeyExists: "rewrite", TargetReplace: true, TargetVersion: "5.0.7",
		BigKeyThreshold: 50 << 20, FilterDBWhitelist: c.DBWhite, FilterDBBlacklist: c.DBBlack, FilterKeyWhitelist: c.KeyWhite, FilterKeyBlacklist: c.KeyBlack, FilterLua: c.Lua,
		LogLevel: "info", Type: conf.TypeSync}
	if conf.Options.Parallel == 0 {
		conf.Options.Parallel = 2
	}
}

// expectedForward: the commands that must be applied at the target, in order, with their database.
// startDB is the database in effect when the stream starts (resume), tracked like the source tracks it.
func expectedForward(cmds []srcCmd, cfg *e2eCfg, startDB int) []fwdCmd {
	ref := cfg.ref()
	var out []fwdCmd
	cur := startDB
	for _, c := range cmds {
		name := strings.ToLower(c.Name)
		if name == "select" {
			n, _ := strconv.Atoi(string(c.Args[0]))
			cur = n
			continue // SELECTs are compared through the effective database of the data commands
		}
		if name == "multi" || name == "exec" {
			continue
		}
		if name != "ping" {
			if ref.DBExcluded(cur) || ref.CommandExcluded(name) {
				continue
			}
			if name == "publish" && len(c.Args) > 0 && strings.EqualFold(string(c.Args[0]), "__sentinel__:hello") {
				continue
			}
		}
		args, dropped := ref.Rewrite(name, c.Args)
		if dropped {
			continue
		}
		if name == "ping" && ref.DBExcluded(cur) {
			// a PING carries no key and no database; the statement does not place it: accept either (handled by the comparer)
		}
		db := cur
		if cfg.TargetDB != -1 {
			db = cfg.TargetDB
		}
		out = append(out, fwdCmd{DB: db, Name: name, Args: args, End: c.End})
	}
	return out
}

// ---- one end-to-end DbSyncer run against fakes

type e2eRun struct {
	Src     *fakesource.Source
	Srv     *miniredis.Server
	TCP     *miniredis.TCP
	Ds      *dbSync.DbSyncer
	mu      sync.Mutex
	bytesBy map[int][]byte // bytes received per target connection
}

var e2eIDs struct {
	sync.Mutex
	n int
}

// startE2E starts fakes and a real DbSyncer.Sync(). srv may be pre-populated (resume scenarios).
func startE2E(cfg *e2eCfg, sc fakesource.Script, srv *miniredis.Server, recordBytes bool, before ...func(e *e2eRun)) (*e2eRun, error) {
	src, err := fakesource.New(sc, e2eSrcPw)
	if err != nil {
		return nil, err
	}
	if srv == nil {
		srv = miniredis.NewServer()
	}
	srv.Password = e2eTgtPw
	tcp, err := srv.ListenTCP()
	if err != nil {
		src.Close()
		return nil, err
	}
	e := &e2eRun{Src: src, Srv: srv, TCP: tcp, bytesBy: map[int][]byte{}}
	if recordBytes {
		tcp.OnBytes = func(id int, p []byte) {
			e.mu.Lock()
			e.bytesBy[id] = append(e.bytesBy[id], p...)
			e.mu.Unlock()
		}
	}
	e2eIDs.Lock()
	e2eIDs.n++
	id := e2eIDs.n
	e2eIDs.Unlock()
	node := &slot.SyncNode{Id: id, Source: src.Addr, SourcePassword: e2eSrcPw, Target: []string{tcp.Addr}, TargetPassword: e2eTgtPw, SlotLeftBoundary: -1, SlotRightBoundary: -1}
	e.Ds = dbSync.NewDbSyncer(node, 9320, semaphore.NewWeighted(64))
	for _, f := range before {
		f(e)
	}
	go e.Ds.Sync()
	return e, nil
}

// ConnBytes returns a copy of the bytes received on target connection id.
func (e *e2eRun) ConnBytes(id int) []byte {
	e.mu.Lock()
	defer e.mu.Unlock()
	return append([]byte{}, e.bytesBy[id]...)
}

// IncrConn finds the target connection that carries the incremental traffic: the one (highest id) whose
// log holds anything else than the full-sync / checkpoint-loading vocabulary.
func (e *e2eRun) DataLog() []miniredis.Logged {
	e.Srv.Mu.Lock()
	defer e.Srv.Mu.Unlock()
	return append([]miniredis.Logged{}, e.Srv.Log...)
}

// applied returns the data commands applied at the target on the incremental connection, bookkeeping stripped.
// Also reports foreign MULTI/EXEC (any MULTI/EXEC when resume is off).
func appliedCommands(log []miniredis.Logged, own string, incrConn int) (out []fwdCmd, bookkeeping int, strayTx int) {
	for _, l := range log {
		if l.Conn != incrConn {
			continue
		}
		switch l.Name {
		case "auth", "select", "info":
			continue
		case "multi", "exec":
			bookkeeping++
			continue
		case "hset":
			if len(l.Args) == 3 && strings.HasPrefix(string(l.Args[0]), ckptKey) && strings.HasPrefix(string(l.Args[1]), own+"-") {
				bookkeeping++
				continue
			}
		}
		if l.Reply == "queued" {
			continue // the queued echo of a command inside MULTI; the applied one follows with InTx
		}
		out = append(out, fwdCmd{DB: l.DB, Name: l.Name, Args: l.Args, At: l.At})
	}
	return
}

// incrConnOf: the connection id that received MULTI or any non-restore data command after the full sync.
func incrConnOf(log []miniredis.Logged) int {
	best := -1
	for _, l := range log {
		switch l.Name {
		case "auth", "info", "exists", "hgetall", "hdel", "restore", "script", "pexpire", "del":
			continue
		case "select":
			continue
		}
		if l.Conn > best {
			best = l.Conn
		}
	}
	if best < 0 {
		// only SELECTs were seen: take the newest connection
		for _, l := range log {
			if l.Conn > best {
				best = l.Conn
			}
		}
	}
	return best
}

// minimalRDB: a well-formed RDB with the given keys (may be empty).
func minimalRDB(rng *prng.R, keys []*rdbgen.KeySpec) []byte {
	f := &rdbgen.File{Version: 9}
	for _, k := range keys {
		f.Items = append(f.Items, rdbgen.Item{Key: k})
	}
	data, _ := rdbgen.Build(rng, f, 0)
	return data
}

func waitUntil(d time.Duration, cond func() bool) bool { return miniredis.WaitFor(d, cond) }
