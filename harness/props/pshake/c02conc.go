package pshake

import (
	"bytes"
	"encoding/json"
	"fmt"
	"io/ioutil"
	"os"
	"path/filepath"
	"sync"
	"time"

	"github.com/alibaba/RedisShake/pkg/libs/log"
	"github.com/alibaba/RedisShake/pkg/rdb"
	utils "github.com/alibaba/RedisShake/redis-shake/common"
	conf "github.com/alibaba/RedisShake/redis-shake/configure"

	"verif/harness/lib/miniredis"
	"verif/harness/lib/prng"
	"verif/harness/lib/rdbgen"
	"verif/harness/lib/refrdb"
	"verif/harness/lib/wk"
)

// Concurrent-workers stage of C02. The tool restores with `parallel` worker connections per source and one syncer
// per source, so utils.RestoreRdbEntry is entered by several goroutines at the same time, each with its own
// connection and its own entry. Here W workers restore disjoint sets of keys into one model target over TCP; half of
// the keys already exist there (the busy-key routes: REPLACE, or delete-and-retry on a target without it). Afterwards
// every key must hold the value of its own entry.

func init() { wk.RegisterChild("c02conc", c02concChild) }

type c02concCase struct {
	Index   int    `json:"index"`
	Workers int    `json:"concurrent_workers"`
	Keys    int    `json:"keys_per_worker"`
	Policy  string `json:"key_exists"`
	Replace bool   `json:"target_supports_replace"`
}

func c02concChild(raw json.RawMessage, scratch string) {
	a := wk.ParseBatchArg(raw, nil)
	log.SetLevel(log.LEVEL_NONE)
	r := wk.ChildRes("C02")
	inChild = true
	base := prng.New(a.Seed).Split(0xC02C)
	// once a group had a worker that never finished, the verdict is in and the remaining groups would each wait out the
	// same patience: a marker next to the children's directories tells restarted children to stop
	stuckMarker := filepath.Join(filepath.Dir(scratch), "c02conc.stuck")
	for i := a.Start; i < a.End; i++ {
		if _, err := os.Stat(stuckMarker); err == nil {
			r.Note("concurrent-workers stage cut short after a worker-never-finishes verdict")
			break
		}
		rng := base.At(uint64(i))
		cs := &c02concCase{Index: i, Workers: rng.Pick(2, 3, 8, 16), Keys: rng.Pick(10, 40), Policy: "rewrite", Replace: i%2 == 0}
		wk.ChildCase(i, cs)
		version := "5.0.7"
		if !cs.Replace {
			version = "2.8.19"
		}
		conf.Options = conf.Configuration{KeyExists: cs.Policy, TargetReplace: cs.Replace, BigKeyThreshold: 50 << 20, TargetVersion: version, Metric: true,
			TargetAuthType: "auth", TargetPasswordRaw: e2eTgtPw}
		srv := miniredis.NewServer()
		srv.Password = e2eTgtPw
		if !cs.Replace {
			srv.Version, srv.NoReplace, srv.BusyMsg = version, true, "ERR Target key name is busy."
		}
		tcp, err := srv.ListenTCP()
		if err != nil {
			r.Inconcl("listen: " + err.Error())
			continue
		}
		type item struct {
			key string
			val *rdbgen.Value
			e   *rdb.BinEntry
		}
		work := make([][]item, cs.Workers)
		bad := false
		for w := range work {
			f := &rdbgen.File{Version: 9}
			var vals []*rdbgen.Value
			for k := 0; k < cs.Keys; k++ {
				kind := []string{"string", "list", "set", "zset", "hash"}[rng.Intn(5)]
				v := rdbgen.RandValue(rng, kind, rng.Pick(1, 3, 12))
				encs := rdbgen.EncodingsFor(v)
				enc := encs[rng.Intn(len(encs))]
				if enc == "quicklist" {
					enc = encs[0]
				}
				key := fmt.Sprintf("w%d:k%d", w, k)
				f.Items = append(f.Items, rdbgen.Item{Key: &rdbgen.KeySpec{DB: 0, Key: []byte(key), Val: v, Enc: enc}})
				vals = append(vals, v)
				if k%2 == 0 {
					srv.Put(0, key, &rdbgen.Value{Kind: "string", Str: []byte("already-there-" + key)}, 0)
				}
			}
			data, _ := rdbgen.Build(rng, f, 0)
			l := rdb.NewLoader(bytes.NewReader(data))
			l.Header()
			for k := 0; k < cs.Keys; k++ {
				e, err := l.NextBinEntry()
				if err != nil || e == nil {
					bad = true
					break
				}
				if e.Type == rdb.RdbTypeQuicklist {
					continue // element-wise route: out of this stage's scope
				}
				work[w] = append(work[w], item{string(e.Key), vals[k], e})
			}
		}
		if bad {
			r.Inconcl("C02 concurrent stage: loader failed on a generated file")
			tcp.Close()
			continue
		}
		errs := make([]error, cs.Workers)
		var wg sync.WaitGroup
		start := make(chan struct{})
		for w := range work {
			wg.Add(1)
			go func(w int) {
				defer wg.Done()
				c, err := utils.OpenRedisConn([]string{tcp.Addr}, "auth", e2eTgtPw, false, false)
				if err != nil {
					errs[w] = err
					return
				}
				defer c.Close()
				<-start
				for _, it := range work[w] {
					if err := utils.RestoreRdbEntry(c, it.e); err != nil {
						errs[w] = fmt.Errorf("key %q: %v", it.key, err)
						return
					}
				}
			}(w)
		}
		close(start)
		done := make(chan struct{})
		go func() { wg.Wait(); close(done) }()
		sig := func(o string) string {
			return fmt.Sprintf("C02|route=plain|concurrent-workers|policy=%s|replace=%v|outcome=%s", cs.Policy, cs.Replace, o)
		}
		select {
		case <-done:
		case <-time.After(30 * time.Second):
			ioutil.WriteFile(stuckMarker, []byte("x"), 0644)
			r.Violation(sig("worker-never-finishes"), fmt.Sprintf("%d workers restoring disjoint keys over their own connections: not all of them finished within 30 s (a worker alone needs milliseconds)", cs.Workers), cs)
			break // the stuck workers keep spinning on their connections: the child ends here, and they with it
		}
		r.Case(fmt.Sprintf("conc|w%d|k%d|replace%v", cs.Workers, cs.Keys, cs.Replace))
		r.Count("concurrent_worker_groups", 1)
		reported := false
		for w, e := range errs {
			if e != nil && !reported {
				r.Violation(sig("unexpected-error"), fmt.Sprintf("worker %d of %d: RestoreRdbEntry failed although every busy key was to be rewritten: %v", w, cs.Workers, e), cs)
				reported = true
			}
		}
		snap := srv.Snapshot()
		for w := range work {
			for _, it := range work[w] {
				if reported {
					break
				}
				got := snap[0][it.key]
				switch {
				case got == nil:
					r.Violation(sig("key-missing"), fmt.Sprintf("worker %d of %d reported success for key %q, the target does not hold it", w, cs.Workers, it.key), cs)
					reported = true
				case !refrdb.Equal(got.Val, it.val):
					r.Violation(sig("value-differs"), fmt.Sprintf("worker %d of %d reported success for key %q, the target holds %s instead of %s", w, cs.Workers, it.key, describeV(got.Val), describeV(it.val)), cs)
					reported = true
				}
				r.Count("concurrently_restored_keys_checked", 1)
			}
		}
		tcp.Close()
		if i == a.Start {
			r.Sample(cs)
		}
	}
	wk.ChildDone(r)
}
