package pshake

import (
	"bufio"
	"encoding/json"
	"fmt"
	"net"
	"sort"
	"strings"
	"sync"
	"time"

	"github.com/alibaba/RedisShake/pkg/libs/log"
	conf "github.com/alibaba/RedisShake/redis-shake/configure"
	"github.com/alibaba/RedisShake/redis-shake/dbSync"
	"github.com/alibaba/RedisShake/redis-shake/dbSync/slot"
	"github.com/alibaba/RedisShake/redis-shake/dbSync/slotsupervisor"

	"golang.org/x/sync/semaphore"

	"verif/harness/lib/fakesource"
	"verif/harness/lib/miniredis"
	"verif/harness/lib/prng"
	"verif/harness/lib/rdbgen"
	"verif/harness/lib/wk"
)

func init() {
	wk.Register("C20", c20)
	wk.RegisterChild("c20cases", c20casesChild)
}

// behaviours of a fake node for one probe round
const (
	bMaster  = "master"
	bSlave   = "slave"
	bRefuse  = "refuse"  // port closed for the whole case
	bDrop    = "drop"    // accept and close at once
	bErr     = "error"   // -ERR reply to INFO
	bNoRole  = "norole"  // INFO output without a role line
	bGarbage = "garbage" // not RESP
	bInt     = "int"     // integer reply to INFO
	bLoading = "loading" // -LOADING reply
)

type fakeNode struct {
	Script []string `json:"script"` // behaviour per probe round (last one repeats)
	addr   string
	l      net.Listener
	mu     sync.Mutex
	probes int
}

func (n *fakeNode) behaviour(round int) string {
	if round >= len(n.Script) {
		return n.Script[len(n.Script)-1]
	}
	return n.Script[round]
}

var refuseSeq struct {
	sync.Mutex
	n int
}

func (n *fakeNode) start() error {
	if n.Script[0] == bRefuse {
		// a loopback address nothing listens on (unique per node, never handed out as an ephemeral port)
		refuseSeq.Lock()
		refuseSeq.n++
		k := refuseSeq.n
		refuseSeq.Unlock()
		n.addr = fmt.Sprintf("127.77.%d.%d:9", k/250%250+1, k%250+1)
		return nil
	}
	l, err := net.Listen("tcp", "127.0.0.1:0")
	if err != nil {
		return err
	}
	n.addr = l.Addr().String()
	n.l = l
	go func() {
		for {
			c, err := l.Accept()
			if err != nil {
				return
			}
			n.mu.Lock()
			round := n.probes
			n.probes++
			n.mu.Unlock()
			go n.serve(c, n.behaviour(round))
		}
	}()
	return nil
}

func (n *fakeNode) serve(c net.Conn, b string) {
	defer c.Close()
	if b == bDrop {
		return
	}
	br := bufio.NewReader(c)
	for {
		argv, _, err := miniredis.ReadCommand(br)
		if err != nil {
			return
		}
		if len(argv) == 0 {
			continue
		}
		switch strings.ToLower(string(argv[0])) {
		case "auth":
			c.Write([]byte("+OK\r\n"))
		case "info":
			body := ""
			switch b {
			case bMaster:
				body = "# Replication\r\nrole:master\r\nconnected_slaves:1\r\nslave0:ip=127.0.0.1,port=1,state=online,offset=1,lag=0\r\n"
			case bSlave:
				body = "# Replication\r\nrole:slave\r\nmaster_host:127.0.0.1\r\nmaster_port:1\r\nmaster_link_status:up\r\n"
			case bNoRole:
				body = "# Replication\r\nconnected_slaves:0\r\nmaster_replid:role:master-is-not-here\r\n xrole:master\r\n"
			case bErr:
				c.Write([]byte("-ERR unknown command 'info'\r\n"))
				continue
			case bLoading:
				c.Write([]byte("-LOADING Redis is loading the dataset in memory\r\n"))
				continue
			case bGarbage:
				c.Write([]byte("\x00\x01HTTP/1.1 400 Bad Request\r\n\r\n"))
				return
			case bInt:
				c.Write([]byte(":5\r\n"))
				continue
			}
			c.Write([]byte(fmt.Sprintf("$%d\r\n%s\r\n", len(body), body)))
		default:
			c.Write([]byte("+OK\r\n"))
		}
	}
}

type c20case struct {
	Index int         `json:"index"`
	Nodes []*fakeNode `json:"nodes"`                   // nodes[0] is the configured source, the rest its known replicas
	First int         `json:"first_round_with_master"` // 0-based, -1 never
	Shape string      `json:"shape"`
}

var nonMaster = []string{bSlave, bSlave, bDrop, bErr, bNoRole, bGarbage, bInt, bLoading}

func genC20(rng *prng.R, idx int) *c20case {
	c := &c20case{Index: idx}
	n := rng.Range(1, 5)
	first := rng.Pick(0, 0, 0, 0, 1, 1, 2, 4, 6, -1)
	if idx%12 == 5 {
		first = -1
	}
	c.First = first
	masters := 1
	if n >= 2 && rng.Chance(1, 3) {
		masters = 2
	}
	rounds := 7
	mpos := rng.Perm(n)[:masters]
	refuseAll := map[int]bool{}
	for i := 0; i < n; i++ {
		if rng.Chance(1, 6) {
			refuseAll[i] = true
		}
	}
	for _, m := range mpos {
		delete(refuseAll, m)
	}
	for i := 0; i < n; i++ {
		nd := &fakeNode{}
		for r := 0; r < rounds; r++ {
			b := nonMaster[rng.Intn(len(nonMaster))]
			if refuseAll[i] {
				b = bRefuse
			}
			isM := false
			for _, m := range mpos {
				if m == i {
					isM = true
				}
			}
			if first >= 0 && r >= first && isM {
				b = bMaster
			}
			nd.Script = append(nd.Script, b)
		}
		c.Nodes = append(c.Nodes, nd)
	}
	c.Shape = fmt.Sprintf("n%d|m%d|first%d|srcIsMaster%v", n, masters, first, first >= 0 && c.Nodes[0].Script[maxInt(first, 0)] == bMaster)
	return c
}

func maxInt(a, b int) int {
	if a > b {
		return a
	}
	return b
}

func runC20(r resIface, c *c20case) {
	for _, n := range c.Nodes {
		if err := n.start(); err != nil {
			r.Inconcl("cannot start fake node: " + err.Error())
			return
		}
	}
	defer func() {
		for _, n := range c.Nodes {
			if n.l != nil {
				n.l.Close()
			}
		}
	}()
	in := slot.SyncNode{Id: 7, Source: c.Nodes[0].addr, SourcePassword: "S3NT-src-c20", Target: []string{"127.0.0.1:1"}, TargetPassword: "S3NT-tgt-c20", SlotLeftBoundary: 100, SlotRightBoundary: 200}
	var all []string
	for i, n := range c.Nodes {
		all = append(all, n.addr)
		if i > 0 {
			in.Slaves = append(in.Slaves, n.addr)
		}
	}
	type out struct {
		node *slot.SyncNode
		err  error
	}
	ch := make(chan out, 1)
	t0 := time.Now()
	go func() {
		nd, err := slotsupervisor.New(in).GetSlotState()
		ch <- out{nd, err}
	}()
	var o out
	select {
	case o = <-ch:
	case <-time.After(90 * time.Second):
		// "... then fails with an error instead of ... hanging": decided on what the nodes saw, not on the clock alone -
		// a call that has used up its 1+6 probe rounds (or stopped probing for a minute: the longest back-off step is 6 s)
		// and still has not returned hangs; anything else only says the machine was too slow
		probes := func() (max, sum int) {
			for _, n := range c.Nodes {
				n.mu.Lock()
				if n.probes > max {
					max = n.probes
				}
				sum += n.probes
				n.mu.Unlock()
			}
			return
		}
		mx, before := probes()
		select {
		case o = <-ch:
		case <-time.After(60 * time.Second):
		}
		_, after := probes()
		if o.node == nil && o.err == nil {
			if mx >= 7 || after == before {
				r.Violation("C20|outcome=call-does-not-return", fmt.Sprintf("GetSlotState has not returned 150 s after it was called (back-off budget 21 s); the nodes saw at most %d probe rounds, %d probes in the last minute", mx, after-before), c)
			} else {
				r.Inconcl(fmt.Sprintf("GetSlotState did not return within 150 s but is still probing (%d probes in the last minute) for %s", after-before, c.Shape))
			}
			return
		}
	}
	took := time.Since(t0)
	r.Case(c.Shape)
	r.Count("cases", 1)
	maxProbes := 0
	for _, n := range c.Nodes {
		n.mu.Lock()
		if n.probes > maxProbes {
			maxProbes = n.probes
		}
		n.mu.Unlock()
	}
	r.Count("probe_rounds", int64(maxProbes))
	sig := func(o string) string {
		m := 0
		if c.First >= 0 {
			for _, n := range c.Nodes {
				if n.behaviour(c.First) == bMaster {
					m++
				}
			}
		}
		return fmt.Sprintf("C20|outcome=%s|masters=%d", o, m)
	}
	rep := map[string]interface{}{"case": c, "took_ms": took.Milliseconds()}
	if maxProbes > 7 {
		r.Violation(sig("retry-budget-exceeded"), fmt.Sprintf("a node was probed %d times (budget: 1 + 6 retries)", maxProbes), rep)
		return
	}
	if c.First < 0 {
		r.Count("no_master_cases", 1)
		if o.err == nil {
			r.Violation(sig("synced-without-master"), fmt.Sprintf("no node ever reported the master role, yet %q was returned as source", o.node.Source), rep)
		}
		return
	}
	if o.err != nil {
		r.Violation(sig("master-not-found"), fmt.Sprintf("a node reports master from round %d on, GetSlotState failed: %v", c.First+1, o.err), rep)
		return
	}
	// which round did it succeed in: the first with a master
	var masters []string
	for _, n := range c.Nodes {
		if n.behaviour(c.First) == bMaster {
			masters = append(masters, n.addr)
		}
	}
	isMaster := false
	for _, m := range masters {
		if o.node.Source == m {
			isMaster = true
		}
	}
	if !isMaster {
		idx := -1
		for i, a := range all {
			if a == o.node.Source {
				idx = i
			}
		}
		b := "unknown address"
		if idx >= 0 {
			b = c.Nodes[idx].behaviour(c.First)
		}
		r.Violation(sig("non-master-chosen"), fmt.Sprintf("chosen source %q does not report the master role in that round (it behaves: %s)", o.node.Source, b), rep)
		return
	}
	want := []string{}
	for _, a := range all {
		if a != o.node.Source {
			want = append(want, a)
		}
	}
	got := append([]string{}, o.node.Slaves...)
	sort.Strings(want)
	sort.Strings(got)
	if fmt.Sprint(want) != fmt.Sprint(got) {
		what := "replica-list-wrong"
		if len(got) < len(want) {
			what = "known-node-dropped"
		} else if len(got) > len(want) {
			what = "replica-listed-twice-or-extra"
		}
		r.Violation(sig(what), fmt.Sprintf("source %q; replicas listed %v, every other known node is %v", o.node.Source, got, want), rep)
		return
	}
	if o.node.Id != in.Id || o.node.SourcePassword != in.SourcePassword || o.node.TargetPassword != in.TargetPassword || fmt.Sprint(o.node.Target) != fmt.Sprint(in.Target) ||
		o.node.SlotLeftBoundary != in.SlotLeftBoundary || o.node.SlotRightBoundary != in.SlotRightBoundary {
		r.Violation(sig("descriptor-fields-lost"), "returned SyncNode lost id/passwords/target/slot boundaries", rep)
	}
}

// runC20e2e: the use at sync start. DbSyncer.Sync() with source.type=cluster must re-discover the shard's master and
// replicate from it: the configured source is a replica (or dead), a known replica has been promoted.
func runC20e2e(r resIface, idx int, rng *prng.R) {
	cfg := &e2eCfg{TargetDB: -1, SenderCount: 8, SenderSize: 65535, Parallel: 2, Metric: true}
	cfg.apply()
	conf.Options.SourceType = conf.RedisTypeCluster
	master, err := fakesource.New(fakesource.Script{RunID: e2eRunID, StartOffset: 10, RDB: minimalRDB(rng, nil)}, e2eSrcPw)
	if err != nil {
		r.Inconcl("fakesource: " + err.Error())
		return
	}
	old := &fakeNode{Script: []string{[]string{bSlave, bDrop, bErr, bRefuse}[idx%4]}}
	other := &fakeNode{Script: []string{bSlave}}
	old.start()
	other.start()
	srv := miniredis.NewServer()
	srv.Password = e2eTgtPw
	tcp, _ := srv.ListenTCP()
	slaves := []string{other.addr, master.Addr}
	if idx%2 == 1 {
		slaves = []string{master.Addr, other.addr}
	}
	e2eIDs.Lock()
	e2eIDs.n++
	id := e2eIDs.n
	e2eIDs.Unlock()
	node := &slot.SyncNode{Id: id, Source: old.addr, SourcePassword: e2eSrcPw, Target: []string{tcp.Addr}, TargetPassword: e2eTgtPw, SlotLeftBoundary: -1, SlotRightBoundary: -1, Slaves: slaves}
	ds := dbSync.NewDbSyncer(node, 9320, semaphore.NewWeighted(4))
	go ds.Sync()
	master.Feed(streamBytes([]srcCmd{{Name: "SELECT", Args: [][]byte{[]byte("0")}}, {Name: "SET", Args: [][]byte{[]byte("promoted"), []byte("yes")}}}))
	ok := waitUntil(10*time.Second, func() bool { return srv.Raw(0, "promoted") != nil })
	_, ps := master.Snapshot()
	r.Case(fmt.Sprintf("e2e-topology|old=%s|order%d", old.Script[0], idx%2))
	r.Count("e2e_topology_runs", 1)
	if len(ps) == 0 || !ok {
		r.Violation("C20|outcome=sync-did-not-follow-the-master|scenario=e2e", fmt.Sprintf("configured source behaves as %q, a known replica reports master: the syncer sent %d PSYNC to the master and the master's write arrived=%v", old.Script[0], len(ps), ok), map[string]interface{}{"old_source": old.Script[0], "slaves_order": idx % 2})
	}
}

// runC20failover: re-discovery at a *restart*. The first handshake and full sync go to the shard's master; while
// the RDB is still arriving the shard fails over (the old master stays alive as a replica and would still answer
// PSYNC, a known replica becomes master); one restore fails at the target, so Sync() starts over - and must pick
// the node that reports master now. Resume-from-breakpoint on/off.
func runC20failover(r resIface, idx int, rng *prng.R) {
	cfg := &e2eCfg{TargetDB: -1, SenderCount: 8, SenderSize: 65535, Parallel: 2, Metric: true, Resume: idx%2 == 0}
	cfg.apply()
	conf.Options.SourceType = conf.RedisTypeCluster
	keys := []*rdbgen.KeySpec{{DB: 0, Key: []byte("will-fail-once"), Val: &rdbgen.Value{Kind: "string", Str: []byte("v")}, Enc: "raw"}}
	rdbBytes := minimalRDB(rng, keys)
	old, err := fakesource.New(fakesource.Script{RunID: e2eRunID, StartOffset: 10, RDB: rdbBytes, Frag: []int{7}, Gap: 20 * time.Millisecond, ResumeMode: "fullresync"}, e2eSrcPw)
	if err != nil {
		r.Inconcl("fakesource: " + err.Error())
		return
	}
	promoted, err := fakesource.New(fakesource.Script{RunID: "bbbbbbbbbbbbbbbbbbbbbbbbbbbbbbbbbbbbbbbb", StartOffset: 10, RDB: rdbBytes}, e2eSrcPw)
	if err != nil {
		r.Inconcl("fakesource: " + err.Error())
		return
	}
	promoted.SetRole("slave")
	srv := miniredis.NewServer()
	srv.Password = e2eTgtPw
	srv.Faults = append(srv.Faults, &miniredis.Fault{Cmd: "restore", Key: "will-fail-once", Nth: 1, Reply: miniredis.ErrReply("ERR injected failure")})
	tcp, _ := srv.ListenTCP()
	e2eIDs.Lock()
	e2eIDs.n++
	id := e2eIDs.n
	e2eIDs.Unlock()
	node := &slot.SyncNode{Id: id, Source: old.Addr, SourcePassword: e2eSrcPw, Target: []string{tcp.Addr}, TargetPassword: e2eTgtPw, SlotLeftBoundary: -1, SlotRightBoundary: -1, Slaves: []string{promoted.Addr}}
	ds := dbSync.NewDbSyncer(node, 9320, semaphore.NewWeighted(4))
	go ds.Sync()
	// the fail-over happens as soon as the first PSYNC has reached the old master (its RDB takes a while to arrive)
	if !waitUntil(10*time.Second, func() bool { _, ps := old.Snapshot(); return len(ps) >= 1 }) {
		r.Inconcl("fail-over scenario: the syncer never sent its first PSYNC")
		return
	}
	old.SetRole("slave")
	promoted.SetRole("master")
	followed := waitUntil(15*time.Second, func() bool { _, ps := promoted.Snapshot(); return len(ps) >= 1 })
	_, psOld := old.Snapshot()
	r.Case(fmt.Sprintf("e2e-failover-at-restart|resume=%v", cfg.Resume))
	r.Count("e2e_failover_runs", 1)
	if !followed {
		r.Violation(fmt.Sprintf("C20|outcome=restart-keeps-the-demoted-node|scenario=e2e-failover|resume=%v", cfg.Resume), fmt.Sprintf("after a failed full sync the syncer started over while the old master reports role:slave and a known replica reports role:master: the new master got no PSYNC within 15 s, the demoted node got %d", len(psOld)), map[string]interface{}{"resume": cfg.Resume})
	}
}

func c20casesChild(raw json.RawMessage, scratch string) {
	a := wk.ParseBatchArg(raw, nil)
	log.SetLevel(log.LEVEL_NONE)
	r := wk.ChildRes("C20")
	base := prng.New(a.Seed).Split(0xC20)
	conf.Options = conf.Configuration{}
	var wg sync.WaitGroup
	var mu sync.Mutex
	sampled := false
	if a.Start >= 9000000 {
		for i := a.Start; i < a.End; i++ {
			if i%4 >= 2 {
				wk.ChildCase(i, map[string]interface{}{"index": i, "scenario": "e2e-failover-at-restart", "resume": i%2 == 0})
				runC20failover(r, i, base.At(uint64(i)))
				continue
			}
			wk.ChildCase(i, map[string]interface{}{"index": i, "scenario": "e2e-topology"})
			runC20e2e(r, i, base.At(uint64(i)))
		}
		wk.ChildDone(r)
		return
	}
	for i := a.Start; i < a.End; i++ {
		c := genC20(base.At(uint64(i)), i)
		wg.Add(1)
		go func(c *c20case) {
			defer wg.Done()
			runC20(r, c)
			mu.Lock()
			if !sampled {
				sampled = true
				r.Sample(c)
			}
			mu.Unlock()
		}(c)
	}
	wg.Wait()
	wk.ChildDone(r)
}

func c20(c *wk.Ctx) {
	r := c.R
	r.Rule = "fake shard nodes on loopback ports with a behaviour script per probe round (master, slave, connection refused, accept-and-drop, -ERR, -LOADING, INFO without role, non-RESP garbage, integer reply); 1-5 nodes in any order, one or two masters appearing from round 1..7 or never; the real slotsupervisor.New(node).GetSlotState() is called; plus end-to-end runs of DbSyncer.Sync() with source.type=cluster where the configured source is a replica/dead node and a known replica was promoted (the PSYNC must go to the master); result checked at the first round in which a node reports master: Source is one of that round's masters, Slaves = every other known node exactly once, error iff no master within the retry budget, at most 7 probes per node. distinct = (nodes, masters, first master round, whether the configured source is the master)"
	onDeath := func(d wk.Death) {
		if d.Result.TimedOut {
			r.Inconcl("C20 child watchdog")
			return
		}
		r.Violationf("C20|outcome=process-aborted", nil, "GetSlotState ended the process (exit %d): %s", d.Result.Exit, firstPanicLine(d.Result.Stderr))
	}
	if wk.ReplayOne(c, "c20cases", nil, onDeath) {
		return
	}
	n := c.N(160, 1600)
	parts := c.N(4, 16)
	wk.Parallel(parts+1, 5, func(p int) {
		if p == parts {
			wk.RunBatch(c, "c20cases", 9000000, 9000000+c.N(8, 32), nil, 20*time.Minute, onDeath)
			return
		}
		wk.RunBatch(c, "c20cases", n*p/parts, n*(p+1)/parts, nil, 20*time.Minute, onDeath)
	})
	r.Floor("e2e_failover_runs", 2)
	r.Floor("e2e_topology_runs", 4)
	r.Floor("e2e_failover_runs", 3)
	r.Floor("cases", 100)
	r.Floor("no_master_cases", 8)
	r.Assume("a probe round = one connection per node (the supervisor probes every known node once per round); silent nodes (accept, never answer) are not generated: the connection has no read timeout and the statement's fault list does not include them")
}
