package pshake

import (
	"bytes"
	"encoding/json"
	"fmt"
	"strings"
	"time"

	"github.com/alibaba/RedisShake/pkg/libs/log"
	"github.com/alibaba/RedisShake/pkg/rdb"
	utils "github.com/alibaba/RedisShake/redis-shake/common"
	conf "github.com/alibaba/RedisShake/redis-shake/configure"

	"verif/harness/lib/miniredis"
	"verif/harness/lib/prng"
	"verif/harness/lib/rdbgen"
	"verif/harness/lib/refrdb"
	"verif/harness/lib/wk"
)

func init() {
	wk.Register("C02", c02)
	wk.RegisterChild("c02cases", c02casesChild)
}

type c02case struct {
	Index       int    `json:"index"`
	Kind        string `json:"kind"`
	Enc         string `json:"encoding"`
	Elems       int    `json:"elements"`
	Route       string `json:"route"`
	Policy      string `json:"key_exists"`
	Replace     bool   `json:"target_replace"`
	Version     string `json:"target_version"`
	Typed       bool   `json:"version_typed_by_user"`
	RealVersion string `json:"target_real_version"`
	Threshold   uint64 `json:"big_key_threshold"`
	PayloadLen  int    `json:"payload_len"`
	Pre         string `json:"preexisting"` // none same other
	Expiry      string `json:"expiry"`      // none future past
	ShiftH      int    `json:"shift_hours"`
	HashTag     bool   `json:"replace_hash_tag"`
	Idle        bool   `json:"idle"`
	Freq        bool   `json:"freq"`
	Key         string `json:"key"`
	Chunked     bool   `json:"chunked_hash,omitempty"`
	ValueDesc   string `json:"value"`
}

func (c *c02case) sig(outcome string) string {
	return fmt.Sprintf("C02|route=%s|policy=%s|replace=%v|preexisting=%s|outcome=%s", c.Route, c.Policy, c.Replace, c.Pre, outcome)
}

var c02versions = []struct {
	ver   string
	typed bool
	real  string
}{
	{"5.0.7", false, "5.0.7"}, {"4.0.2", false, "4.0.2"}, {"3.2.1", false, "3.2.1"}, {"2.8.19", false, "2.8.19"}, {"6.0.5", false, "6.0.5"}, {"3.0.7", false, "3.0.7"},
	{"5", true, "5.0.7"}, {"5.0", true, "5.0.7"}, {"6", true, "6.0.5"}, {"4", true, "4.0.2"}, {"2.8", true, "2.8.19"}, {"4.0.2", true, "4.0.2"},
}

func genC02(rng *prng.R, idx int) (*c02case, *rdbgen.KeySpec) {
	c := &c02case{Index: idx}
	kinds := []string{"string", "list", "set", "intset", "zset", "hash", "stream"}
	kind := kinds[idx%len(kinds)]
	n := []int{1, 2, 99, 100, 101, 250}[(idx/7)%6]
	if kind == "string" || kind == "stream" {
		n = 1
	}
	v := rdbgen.RandValue(rng, kind, n)
	if kind == "string" && (idx/7)%3 == 0 {
		v.Str = rng.Bytes([]int{0, 1, 99, 100, 101, 250, 5000}[(idx/21)%7])
	}
	encs := rdbgen.EncodingsFor(v)
	enc := encs[(idx/42)%len(encs)]
	c.Kind, c.Enc, c.Elems = v.Kind, enc, v.Elements()
	ks := &rdbgen.KeySpec{DB: 0, Val: v, Enc: enc}
	ks.Key = []byte(fmt.Sprintf("k%d:%s", idx, rng.Alpha(rng.Range(0, 6), "abc{}xyz")))
	if rng.Chance(1, 6) {
		ks.Key = append(ks.Key, rng.Bytes(4)...)
	}
	c.HashTag = rng.Chance(1, 4)
	c.Policy = []string{"none", "rewrite", "ignore"}[rng.Intn(3)]
	c.Pre = []string{"none", "none", "same", "other"}[rng.Intn(4)]
	vv := c02versions[rng.Intn(len(c02versions))]
	c.Version, c.Typed, c.RealVersion = vv.ver, vv.typed, vv.real
	c.Replace = strings.HasPrefix(c.Version, "4.") || strings.HasPrefix(c.Version, "3.") || strings.HasPrefix(c.Version, "5.")
	c.Expiry = []string{"none", "future", "future", "past"}[rng.Intn(4)]
	c.ShiftH = rng.Pick(0, 0, 1, -1)
	if rng.Chance(1, 4) {
		ks.HasIdle, ks.Idle, c.Idle = true, uint32(rng.Range(1, 100000)), true
	} else if rng.Chance(1, 4) {
		ks.HasFreq, ks.Freq, c.Freq = true, uint8(rng.Range(1, 255)), true
	}
	c.Key = fmt.Sprintf("%q", ks.Key)
	c.ValueDesc = miniredis.Describe(v)
	return c, ks
}

func otherValue(kind string) *rdbgen.Value {
	if kind == "string" {
		return &rdbgen.Value{Kind: "list", List: [][]byte{[]byte("old-1"), []byte("old-2")}}
	}
	return &rdbgen.Value{Kind: "string", Str: []byte("old-string-value")}
}

func sameKindValue(kind string) *rdbgen.Value {
	switch kind {
	case "string":
		return &rdbgen.Value{Kind: "string", Str: []byte("old-string-value")}
	case "list":
		return &rdbgen.Value{Kind: "list", List: [][]byte{[]byte("old-1"), []byte("old-2")}}
	case "set":
		return &rdbgen.Value{Kind: "set", List: [][]byte{[]byte("old-member")}}
	case "zset":
		return &rdbgen.Value{Kind: "zset", ZSet: []rdbgen.ZEntry{{Member: []byte("old-member"), Score: -7}}}
	case "hash":
		return &rdbgen.Value{Kind: "hash", Hash: [][2][]byte{{[]byte("old-field"), []byte("old-value")}}}
	}
	return &rdbgen.Value{Kind: "stream", Raw: []byte{0, 0, 0, 0, 0}}
}

// runC02 executes one case in-process. Returns false when the case could not be judged.
func runC02(r resIface, c *c02case, ks *rdbgen.KeySpec, rng *prng.R, entries []*rdb.BinEntry, expOverride uint64) {
	nowMs := time.Now().UnixNano() / 1e6
	shift := time.Duration(c.ShiftH) * time.Hour
	var expireAt uint64
	switch c.Expiry {
	case "future":
		// remaining ms below and above 2^31 and 2^32, up to 20 years - and "practically never": 410 years (beyond what a
		// nanosecond Duration can hold) and roughly the year 9999 sentinel
		days := rng.Pick(rng.Range(3, 40), rng.Range(3, 40), 60, 400, 7300, 150000, 2913000)
		expireAt = uint64(nowMs + int64(shift/time.Millisecond) + int64(days)*86400000 + int64(rng.Intn(1000)))
	case "past":
		expireAt = uint64(nowMs + int64(shift/time.Millisecond) - int64(rng.Range(1, 40))*86400000)
	}
	var e *rdb.BinEntry
	var logical *rdbgen.Value = ks.Val
	if entries != nil {
		expireAt = expOverride
	}
	if entries == nil {
		ks.ExpireMs = expireAt
		data, _ := rdbgen.Build(rng, &rdbgen.File{Version: 9, Items: []rdbgen.Item{{Key: ks}}}, rng.Pick(0, 0, 3))
		l := rdb.NewLoader(bytes.NewReader(data))
		if err := l.Header(); err != nil {
			r.Inconcl("C02: loader rejected a generated file: " + err.Error())
			return
		}
		var err error
		e, err = l.NextBinEntry()
		if err != nil || e == nil {
			r.Inconcl(fmt.Sprintf("C02: loader failed on a generated file: %v", err))
			return
		}
		entries = []*rdb.BinEntry{e}
	}
	c.PayloadLen = len(entries[0].Value)
	// configuration as main.SanitizeOptions would leave it
	real := c.RealVersion
	if c.Typed {
		c.Threshold = 1
	} else {
		c.Threshold = []uint64{1, uint64(c.PayloadLen) - 1, uint64(c.PayloadLen), uint64(c.PayloadLen) + 1, 50 << 20}[rng.Intn(5)]
		if c.Threshold == 0 {
			c.Threshold = 1
		}
	}
	conf.Options = conf.Configuration{KeyExists: c.Policy, TargetReplace: c.Replace, BigKeyThreshold: c.Threshold, TargetVersion: c.Version,
		ShiftTime: shift, ReplaceHashTag: c.HashTag, Metric: true}
	srv := miniredis.NewServer()
	srv.Version = real
	srv.RejectTypes = miniredis.TypesUnknownTo(real)
	srv.NoReplace = strings.HasPrefix(real, "2.")
	if strings.HasPrefix(real, "2.") {
		srv.BusyMsg = "ERR Target key name is busy."
	}
	t := entries[0].Type
	// route (what the statement calls it)
	switch {
	case t == rdb.RdbTypeQuicklist:
		c.Route = "quicklist"
	case t != rdb.RDBTypeStreamListPacks && (uint64(c.PayloadLen) > c.Threshold || len(entries) > 1):
		c.Route = "bigkey"
		if len(entries) > 1 {
			c.Route = "chunked"
		}
	case srv.RejectTypes[t]:
		c.Route = "fallback"
	default:
		c.Route = "plain"
	}
	if t == rdb.RDBTypeStreamListPacks && srv.RejectTypes[t] {
		return // a stream cannot be brought to a target that has no streams; not a case of the property
	}
	key := append([]byte{}, entries[0].Key...)
	if c.HashTag {
		key = bytes.Replace(key, []byte("{"), []byte(""), 1)
		key = bytes.Replace(key, []byte("}"), []byte(""), 1)
	}
	// pre-populate
	by := &rdbgen.Value{Kind: "string", Str: []byte("bystander")}
	srv.Put(0, "bystander", by, 0)
	var preVal *rdbgen.Value
	var preExp int64
	switch c.Pre {
	case "same":
		preVal = sameKindValue(logical.Kind)
	case "other":
		preVal = otherValue(logical.Kind)
	}
	if preVal != nil {
		if rng.Bool() {
			preExp = nowMs + 77*86400000
		}
		srv.Put(0, string(key), miniredis.CloneValue(preVal), preExp)
	}
	conn := srv.NewConn()
	var err error
	panicked := ""
	if inChild {
		wk.ChildCase(c.Index, c) // again, now with route/threshold filled in: a death is attributed precisely
	}
	tBefore := time.Now().UnixNano() / 1e6
	func() {
		defer func() {
			if x := recover(); x != nil {
				panicked = fmt.Sprint(x)
			}
		}()
		for _, en := range entries {
			if err = utils.RestoreRdbEntry(conn, en); err != nil {
				break
			}
		}
	}()
	tAfter := time.Now().UnixNano() / 1e6
	r.Case(fmt.Sprintf("%s|%s|%s|%s|%v|%s|%s|%v|n%d", c.Route, c.Enc, c.Policy, c.Pre, c.Replace, c.Expiry, c.Version, c.HashTag, c.Elems))
	r.Count("route:"+c.Route, 1)
	r.Count("policy:"+c.Policy+"/pre:"+c.Pre, 1)
	if panicked != "" {
		cause := "other"
		if strings.Contains(panicked, "index out of range") && c.Version == "5" {
			cause = "version-string-5"
		}
		r.Violation(c.sig("panic|cause="+cause), fmt.Sprintf("RestoreRdbEntry panicked with target.version=%q: %s", c.Version, panicked), c)
		return
	}
	got := srv.Raw(0, string(key))
	gotBy := srv.Raw(0, "bystander")
	if gotBy == nil || !refrdb.Equal(gotBy.Val, by) {
		r.Violation(c.sig("other-key-changed"), "an unrelated key of the target was changed", c)
		return
	}
	if n := len(srv.Snapshot()[0]); n > 2 || (n == 2 && got == nil) {
		r.Violation(c.sig("stray-key-written"), fmt.Sprintf("target database holds %d keys after restoring one", n), c)
		return
	}
	unchanged := func() bool {
		return got != nil && refrdb.Equal(got.Val, preVal) && got.ExpireAt == preExp
	}
	if preVal != nil && c.Policy == "none" {
		if err == nil {
			r.Violation(c.sig("no-error-on-existing-key"), fmt.Sprintf("key_exists=none, key exists, RestoreRdbEntry returned nil; target now %s", miniredis.Describe(valOf(got))), c)
			return
		}
		if !unchanged() {
			r.Violation(c.sig("target-changed"), fmt.Sprintf("key_exists=none reported %v but the existing key changed: now %s (was %s)", err, miniredis.Describe(valOf(got)), miniredis.Describe(preVal)), c)
		}
		return
	}
	if preVal != nil && c.Policy == "ignore" {
		if err != nil {
			r.Violation(c.sig("unexpected-error"), fmt.Sprintf("key_exists=ignore returned an error: %v", err), c)
			return
		}
		if !unchanged() {
			r.Violation(c.sig("target-changed"), fmt.Sprintf("key_exists=ignore but the existing key changed: now %s (was %s)", miniredis.Describe(valOf(got)), miniredis.Describe(preVal)), c)
		}
		return
	}
	if err != nil {
		r.Violation(c.sig("unexpected-error"), fmt.Sprintf("RestoreRdbEntry failed: %v", err), c)
		return
	}
	// success: key must hold the source value with the right TTL
	if got == nil {
		r.Violation(c.sig("key-missing"), fmt.Sprintf("RestoreRdbEntry returned nil but key %q is not in the target", key), c)
		return
	}
	if !refrdb.Equal(got.Val, logical) || (logical.Kind == "list" && !sameListOrder(got.Val, logical)) {
		r.Violation(c.sig("value-differs"), fmt.Sprintf("target holds %s, source value is %s", miniredis.Describe(got.Val), miniredis.Describe(logical)), c)
		return
	}
	slack := tAfter - tBefore + 2
	switch c.Expiry {
	case "none":
		if got.ExpireAt != 0 {
			r.Violation(c.sig("ttl-invented"), fmt.Sprintf("source key has no expiry, target key expires at %d", got.ExpireAt), c)
		}
	case "future":
		want := int64(expireAt) - int64(shift/time.Millisecond)
		if got.ExpireAt == 0 {
			r.Violation(c.sig("ttl-lost"), fmt.Sprintf("source key expires at %d, target key has no expiry", expireAt), c)
		} else if d := got.ExpireAt - want; d < -slack || d > slack {
			r.Violation(c.sig("ttl-wrong"), fmt.Sprintf("target expiry %d, expected %d (source expiry %d minus shift %dh) +-%dms", got.ExpireAt, want, expireAt, c.ShiftH, slack), c)
		}
	case "past":
		if got.ExpireAt == 0 {
			r.Violation(c.sig("ttl-lost"), "source key is already expired, target key has no expiry", c)
		} else if got.ExpireAt < tBefore || got.ExpireAt > tAfter+2 {
			r.Violation(c.sig("ttl-wrong"), fmt.Sprintf("expired source key: target expiry %d is not 'now+1ms' (call ran in [%d,%d])", got.ExpireAt, tBefore, tAfter), c)
		}
	}
}

var inChild bool

type resIface interface {
	Case(string)
	Count(string, int64)
	Violation(string, string, interface{})
	Inconcl(string)
	Max(string, int64)
}

func valOf(e *miniredis.Entry) *rdbgen.Value {
	if e == nil {
		return nil
	}
	return e.Val
}

func sameListOrder(a, b *rdbgen.Value) bool {
	if len(a.List) != len(b.List) {
		return false
	}
	for i := range a.List {
		if !bytes.Equal(a.List[i], b.List[i]) {
			return false
		}
	}
	return true
}

type c02extra struct {
	Chunked bool `json:"chunked"`
}

func c02casesChild(raw json.RawMessage, scratch string) {
	var ex c02extra
	a := wk.ParseBatchArg(raw, &ex)
	log.SetLevel(log.LEVEL_NONE)
	r := wk.ChildRes("C02")
	inChild = true
	base := prng.New(a.Seed).Split(0xC02)
	for i := a.Start; i < a.End; i++ {
		rng := base.At(uint64(i))
		c, ks := genC02(rng, i)
		if ex.Chunked {
			// a real hash above the 16 MiB chunk limit, delivered by the loader in several records
			hv := &rdbgen.Value{Kind: "hash"}
			for k := 0; k < 36; k++ {
				val := bytes.Repeat([]byte{byte('a' + k%26)}, 1<<20)
				hv.Hash = append(hv.Hash, [2][]byte{[]byte(fmt.Sprintf("field-%d", k)), val})
			}
			ks.Val, ks.Enc = hv, "table"
			c.Kind, c.Enc, c.Elems, c.Chunked, c.ValueDesc = "hash", "table", 36, true, "hash of 36 x 1 MiB"
			c.Typed = false
			for c.Version == "5" || c.Version == "6" || c.Version == "4" || c.Version == "2.8" || c.Version == "5.0" {
				vv := c02versions[rng.Intn(6)]
				c.Version, c.RealVersion = vv.ver, vv.real
				c.Replace = strings.HasPrefix(c.Version, "4.") || strings.HasPrefix(c.Version, "3.") || strings.HasPrefix(c.Version, "5.")
			}
		}
		wk.ChildCase(i, c)
		var entries []*rdb.BinEntry
		if ex.Chunked {
			nowMs := time.Now().UnixNano() / 1e6
			if c.Expiry != "none" {
				c.Expiry = "future"
				c.ShiftH = 0
				ks.ExpireMs = uint64(nowMs + 9*86400000)
			}
			data, _ := rdbgen.Build(rng, &rdbgen.File{Version: 9, Items: []rdbgen.Item{{Key: ks}}}, 0)
			l := rdb.NewLoader(bytes.NewReader(data))
			l.Header()
			for {
				e, err := l.NextBinEntry()
				if err != nil || e == nil {
					break
				}
				entries = append(entries, e)
			}
			if len(entries) < 2 {
				r.Inconcl("chunked hash was not chunked by the loader")
				continue
			}
			c.Expiry = map[bool]string{true: "future", false: "none"}[ks.ExpireMs != 0]
			runC02(r, c, ks, rng, entries, ks.ExpireMs)
			continue
		}
		runC02(r, c, ks, rng, nil, 0)
		if i == a.Start {
			r.Sample(c)
		}
	}
	wk.ChildDone(r)
}

func c02(c *wk.Ctx) {
	r := c.R
	r.Rule = "cross product (rotating schedule + PRNG) of value kind x physical encoding x element count {1,2,99,100,101,250} x key_exists {none,rewrite,ignore} x pre-existing target key {none,same type,other type} x target.version strings (fetched or typed, with the threshold/replace pairing SanitizeOptions produces) x big_key_threshold around the payload size x expiry {none,future,past} x time shift {0,+-1h} x hash-tag replacement x idle/freq; entries come from the real loader; after utils.RestoreRdbEntry the whole model database is compared with the expected one (value by logical equality, TTL by a load-independent interval); concurrent stage: 2-16 workers with their own connections restore disjoint keys into one model target at the same time, half of the keys being busy (REPLACE, or delete-and-retry on a 2.8 target), and every key must end up with its own entry's value. distinct = (route, encoding, policy, pre-existing, replace, expiry, version, elements)"
	if msg := refrdb.SelfTest(c.Seed, 200); msg != "" {
		r.Inconcl("harness self-test failed: " + msg)
		return
	}
	onDeath := func(d wk.Death) {
		if d.Result.TimedOut {
			r.Inconcl("C02 child watchdog: " + wk.Tail(d.Result.Stderr, 300))
			return
		}
		var cs c02case
		json.Unmarshal(d.Desc, &cs)
		if cs.Route == "" {
			cs.Route = "unknown"
		}
		r.Count("route:"+cs.Route, 1) // an abort is an observed outcome of that route (and is judged below)
		r.Violation(cs.sig("process-aborted"), fmt.Sprintf("RestoreRdbEntry ended the process (exit %d) under an accepted configuration: %s", d.Result.Exit, firstPanicLine(d.Result.Stderr)), json.RawMessage(d.Desc))
	}
	if wk.ReplayOne(c, "c02cases", func(idx int) interface{} { return c02extra{Chunked: idx >= 5000000} }, onDeath) {
		return
	}
	n := c.N(6000, 1000000)
	type job struct {
		start, end int
		chunked    bool
	}
	var jobs []job
	parts := 12
	for p := 0; p < parts; p++ {
		jobs = append(jobs, job{n * p / parts, n * (p + 1) / parts, false})
	}
	nch := c.N(4, 24)
	for p := 0; p < nch; p++ {
		jobs = append(jobs, job{5000000 + p, 5000000 + p + 1, true})
	}
	wk.Parallel(len(jobs), 14, func(i int) {
		j := jobs[i]
		wk.RunBatch(c, "c02cases", j.start, j.end, c02extra{Chunked: j.chunked}, 30*time.Minute, onDeath)
	})
	nseq := c.N(200, 4000)
	wk.RunBatch(c, "c02seq", 6000000, 6000000+nseq, nil, 20*time.Minute, func(d wk.Death) {
		if d.Result.TimedOut {
			r.Inconcl("C02 sequence child watchdog")
			return
		}
		r.Violationf("C02|route=rump-bigkey|outcome=process-aborted", json.RawMessage(d.Desc), "utils.RestoreBigkey ended the process (exit %d) although every key it was asked to write was free or to be rewritten: %s", d.Result.Exit, firstPanicLine(d.Result.Stderr))
	})
	nconc := c.N(40, 800)
	wk.RunBatch(c, "c02conc", 7000000, 7000000+nconc, nil, 20*time.Minute, func(d wk.Death) {
		if d.Result.TimedOut {
			r.Inconcl("C02 concurrent-workers child watchdog")
			return
		}
		r.Violationf("C02|route=plain|concurrent-workers|outcome=process-aborted", json.RawMessage(d.Desc), "concurrent workers restoring disjoint keys ended the process (exit %d): %s", d.Result.Exit, firstPanicLine(d.Result.Stderr))
	})
	r.Floor("concurrent_worker_groups", 30)
	r.Floor("concurrently_restored_keys_checked", 1000)
	r.Floor("route:rump-bigkey-sequences", 150)
	for _, rt := range []string{"plain", "bigkey", "quicklist", "fallback", "chunked"} {
		r.Floor("route:"+rt, 3)
	}
	r.Assume("model Redis (lib/miniredis) RESTORE semantics: BUSYKEY check before payload check, 'Bad data format' for value types unknown to the target's version, REPLACE unsupported below 3.0; configuration space restricted to what main.SanitizeOptions accepts (typed target.version => big_key_threshold=1; TargetReplace iff version starts with 3./4./5.)")
}
