package pshake

import (
	"bufio"
	"encoding/json"
	"fmt"
	"io"
	"sort"
	"strconv"
	"sync"
	"time"

	"golang.org/x/sync/semaphore"

	"github.com/alibaba/RedisShake/pkg/libs/log"
	"github.com/alibaba/RedisShake/redis-shake/dbSync"
	"github.com/alibaba/RedisShake/redis-shake/dbSync/slot"
	"github.com/alibaba/RedisShake/redis-shake/filter"

	"verif/harness/lib/miniredis"
	"verif/harness/lib/prng"
	"verif/harness/lib/wk"
)

// Stream stage of C13: the same generated table commands, but observed where the statement's second observation
// point is - "the command as received by the target in incremental sync". The real parser and sender run on a pipe
// and an in-process connection; commands that are not key-addressed (SELECT, PING, PUBLISH, commands outside the
// table) are interleaved so that each of them also follows a dropped command, a rewritten one and a forwarded one.

func init() { wk.RegisterChild("c13stream", c13streamChild) }

type c13streamCase struct {
	Index   int      `json:"index"`
	Config  string   `json:"config"`
	N       int      `json:"commands"`
	Sender  uint     `json:"sender_count"`
	Head    []string `json:"stream_head,omitempty"`
	Context []string `json:"around_first_difference,omitempty"`
}

func c13pool(bound int) []srcCmd {
	var names []string
	for k := range filter.RedisCommands {
		names = append(names, k)
	}
	sort.Strings(names)
	var pool []srcCmd
	for _, cmd := range names {
		sh := shapeOf(cmd)
		maxK := sh.maxKeys
		if maxK == 0 {
			maxK = bound
		}
		for nk := sh.minKeys; nk <= maxK; nk++ {
			for nt := sh.trailMin; nt <= sh.trailMax; nt++ {
				for pat := 0; pat < 1<<uint(nk); pat++ {
					var args [][]byte
					for _, l := range sh.lead {
						args = append(args, []byte(l))
					}
					for k := 0; k < nk; k++ {
						if pat&(1<<uint(k)) != 0 {
							args = append(args, []byte(fmt.Sprintf("ok:k%d", k)))
						} else {
							args = append(args, []byte(fmt.Sprintf("no:k%d", k)))
						}
						for q := 0; q < sh.perKey; q++ {
							args = append(args, []byte(fmt.Sprintf("val%d.%d", k, q)))
						}
					}
					for t := 0; t < nt; t++ {
						args = append(args, []byte(fmt.Sprintf("opt%d", t)))
					}
					pool = append(pool, srcCmd{Name: cmd, Args: args})
				}
			}
		}
	}
	return pool
}

func c13streamChild(raw json.RawMessage, scratch string) {
	a := wk.ParseBatchArg(raw, nil)
	log.SetLevel(log.LEVEL_NONE)
	r := wk.ChildRes("C13")
	inChild = true
	base := prng.New(a.Seed).Split(0xC13)
	pool := c13pool(3)
	// streams run three at a time (the tool runs one parser per source link in one process); the three of a group
	// share the configuration, which is process-global
	var rmu sync.Mutex
	runOne := func(i int, cfg e2eCfg, cs *c13streamCase) {
		rng := base.At(uint64(i))
		var cmds []srcCmd
		for k := 0; k < cs.N; k++ {
			c := pool[rng.Intn(len(pool))]
			if rng.Chance(1, 4) {
				c.Name = upperSome(rng, c.Name)
			}
			cmds = append(cmds, c)
			// a command that is not key-addressed follows one command in two
			switch rng.Intn(9) {
			case 8:
				cmds = append(cmds, srcCmd{Name: rng.PickS("flushdb", "FLUSHALL")}) // not key-addressed and without any argument
			case 0, 1:
				cmds = append(cmds, srcCmd{Name: rng.PickS("SELECT", "select"), Args: [][]byte{[]byte(strconv.Itoa(rng.Intn(4)))}})
			case 2:
				cmds = append(cmds, srcCmd{Name: "PING"})
			case 3:
				cmds = append(cmds, srcCmd{Name: rng.PickS("publish", "xadd", "zunionstore", "sort"), Args: [][]byte{[]byte("no:k0"), []byte("ok:k1"), []byte("x")}})
			}
		}
		// positions (End) as the stream encoder assigns them
		streamBytesWithEnds(cmds)
		for k := 0; k < len(cmds) && k < 8; k++ {
			cs.Head = append(cs.Head, cmds[k].String())
		}
		rmu.Lock()
		wk.ChildCase(i, cs)
		rmu.Unlock()
		srv := miniredis.NewServer()
		conn := srv.NewConn()
		conn.BlockReceive = true
		pr, pw := io.Pipe()
		node := &slot.SyncNode{Id: 1300 + i, Source: "10.13.0.1:6379", Target: []string{"127.0.0.1:1"}, SlotLeftBoundary: -1, SlotRightBoundary: -1}
		ds := dbSync.NewDbSyncer(node, -1, semaphore.NewWeighted(1))
		ds.VerifRunIncr(bufio.NewReaderSize(pr, 1<<16), conn, 0, e2eRunID, 100, cfg.SenderCount, 65535)
		want, _ := stripPings(expectedForward(cmds, &cfg, 0))
		go pw.Write(streamBytes(cmds))
		snapshot := func() []fwdCmd {
			srv.Mu.Lock()
			lg := append([]miniredis.Logged{}, srv.Log...)
			srv.Mu.Unlock()
			got, _, _ := appliedCommands(lg, node.Source, conn.Sess.ID)
			g, _ := stripPings(got)
			return g
		}
		complete := waitUntil(30*time.Second, func() bool { return len(snapshot()) >= len(want) })
		time.Sleep(600 * time.Millisecond) // one more flush period: anything wrongly forwarded shows up
		got := snapshot()
		rmu.Lock()
		defer rmu.Unlock()
		r.Case(fmt.Sprintf("stream|%s|sc%d", cs.Config, cfg.SenderCount))
		r.Count("stream_stage_streams", 1)
		r.Count("stream_stage_source_commands", int64(len(cmds)))
		r.Count("stream_stage_forwarded_commands", int64(len(want)))
		sig := func(o string) string { return "C13|stream|config=" + cs.Config + "|outcome=" + o }
		d := 0
		for d < len(want) && d < len(got) && want[d].key() == got[d].key() {
			d++
		}
		if d == len(want) && d == len(got) {
			if i == a.Start {
				r.Sample(cs)
			}
			return
		}
		for k := d - 2; k <= d+1; k++ {
			w, g := "-", "-"
			if k >= 0 && k < len(want) {
				w = want[k].key()
			}
			if k >= 0 && k < len(got) {
				g = got[k].key()
			}
			cs.Context = append(cs.Context, fmt.Sprintf("#%d expected [%s] target got [%s]", k, w, g))
		}
		switch {
		case d >= len(got) && !complete:
			r.Violation(sig("commands-missing-at-target"), fmt.Sprintf("target received %d of %d expected commands; first missing: [%s]", len(got), len(want), want[d].key()), cs)
		case d >= len(want):
			r.Violation(sig("extra-command-at-target"), fmt.Sprintf("target received a command the filtered stream does not contain: [%s]", got[d].key()), cs)
		case want[d].Name == got[d].Name && argvStr(want[d].Args) == argvStr(got[d].Args):
			r.Violation(sig("command-in-wrong-database"), fmt.Sprintf("target command #%d [%s] ran in db %d, the source issued it in db %d (a SELECT was lost or misplaced)", d, got[d].Name+" "+argvStr(got[d].Args), got[d].DB, want[d].DB), cs)
		default:
			r.Violation(sig("command-differs-at-target"), fmt.Sprintf("target command #%d is [%s], the filtered source stream has [%s] there", d, got[d].key(), want[d].key()), cs)
		}
	}
	for g := a.Start; g < a.End; g += 3 {
		grng := base.At(uint64(1000000 + g))
		cfg := e2eCfg{TargetDB: -1, SenderCount: uint(grng.Pick(1, 3, 64, 1024)), SenderSize: 1 << 30, Parallel: 2}
		name := ""
		switch g / 3 % 5 {
		case 0:
			name, cfg.KeyWhite = "whitelist", []string{"ok:", "also-ok"}
		case 1:
			name, cfg.KeyBlack = "blacklist", []string{"no:", "never"}
		case 2:
			name, cfg.KeyWhite = "whitelist-long-first", []string{"also-ok-but-much-longer-than-any-key", "ok:"}
		case 3:
			name, cfg.KeyBlack = "blacklist-long-first", []string{"never-ever-and-longer-than-any-key", "no:"}
		default:
			name = "nofilter"
		}
		cfg.apply()
		var wg sync.WaitGroup
		for i := g; i < g+3 && i < a.End; i++ {
			wg.Add(1)
			go func(i int) {
				defer wg.Done()
				runOne(i, cfg, &c13streamCase{Index: i, N: 1500, Sender: cfg.SenderCount, Config: name})
			}(i)
		}
		wg.Wait()
	}
	wk.ChildDone(r)
}

func upperSome(rng *prng.R, s string) string {
	b := []byte(s)
	for i := range b {
		if b[i] >= 'a' && b[i] <= 'z' && rng.Bool() {
			b[i] -= 32
		}
	}
	return string(b)
}

func streamBytesWithEnds(cmds []srcCmd) {
	var pos int64
	for i := range cmds {
		pos += int64(len(encodeCmd(&cmds[i])))
		cmds[i].End = pos
	}
}
