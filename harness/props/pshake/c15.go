package pshake

import (
	"fmt"
	"strconv"
	"sync"
	"sync/atomic"
	"time"

	utils "github.com/alibaba/RedisShake/redis-shake/common"
	conf "github.com/alibaba/RedisShake/redis-shake/configure"
	"github.com/alibaba/RedisShake/redis-shake/dbSync/latencymonitor"
	"github.com/alibaba/RedisShake/redis-shake/filter"
	rgc "github.com/vinllen/redis-go-cluster"

	"verif/harness/lib/prng"
	"verif/harness/lib/refcrc"
	"verif/harness/lib/wk"
)

func sub15(a, b int) int {
	if a < b {
		return 0
	}
	return a - b
}

func init() { wk.Register("C15", c15) }

// braceClass describes the brace layout of a key (the dimension a slot bug depends on).
func braceClass(k []byte) string {
	out := make([]byte, 0, 8)
	run := false
	for _, c := range k {
		if c == '{' || c == '}' {
			out = append(out, c)
			run = false
		} else if !run {
			out = append(out, 'x')
			run = true
		}
		if len(out) >= 12 {
			break
		}
	}
	return string(out)
}

// slotDeviation names what the tool hashed instead of what the specification says.
func slotDeviation(k []byte, got int) string {
	first := true
	for i, c := range k {
		if c != '{' {
			continue
		}
		for e := i + 1; e < len(k); e++ {
			if k[e] == '}' {
				if e > i+1 && int(refcrc.CRC16(k[i+1:e]))&16383 == got && !first {
					return "uses-later-tag"
				}
				break
			}
		}
		first = false
	}
	if int(refcrc.CRC16(k))&16383 == got {
		return "hashes-whole-key-instead-of-tag"
	}
	return "other-slot"
}

func c15(c *wk.Ctx) {
	r := c.R
	if msg := refcrc.SelfTest(); msg != "" {
		r.Inconcl("harness self-test failed: " + msg)
		return
	}
	r.Rule = "KeyToSlot vs Cluster-spec reference on (a) every string over {'{','}','a','b'} up to a length bound, (b) random binary keys with braces spliced in; " +
		"three CRC16 copies vs bitwise CRC16/XMODEM; ChoseSlotInRange/findKeyInRange results re-hashed by the reference. distinct = brace-layout class x outcome class"
	conf.Options = conf.Configuration{}
	nchecks := 0
	check := func(k []byte, kind string) {
		want := refcrc.Slot(k)
		// the slot of a key is a fact about the key: it may not depend on how the run is configured. Every seventh key
		// is hashed while the options that touch key names (hash-tag replacement, a fixed target db, filters) are set
		nchecks++
		if nchecks%7 == 0 {
			conf.Options = conf.Configuration{ReplaceHashTag: true, TargetDB: 3, FilterSlot: []string{"1", "16383"}, FilterKeyBlacklist: []string{"{"}, KeyExists: "rewrite"}
			defer func() { conf.Options = conf.Configuration{} }()
		}
		got := int(utils.KeyToSlot(string(k)))
		cls := braceClass(k)
		r.Case(kind + "|" + cls)
		if got != want {
			outcome := slotDeviation(k, got)
			r.Violationf("C15|keytoslot|outcome="+outcome, map[string]interface{}{"key": fmt.Sprintf("%q", truncB(k, 200)), "key_bytes": len(k), "want": want, "got": got},
				"KeyToSlot(%q) (%d bytes)=%d, Cluster specification gives %d", truncB(k, 80), len(k), got, want)
		}
	}
	// (a) exhaustive small alphabet
	maxLen := c.N(8, 10)
	alpha := []byte("{}ab")
	var rec func(buf []byte, depth int)
	n := 0
	rec = func(buf []byte, depth int) {
		check(buf, "enum")
		n++
		if depth == maxLen {
			return
		}
		for _, a := range alpha {
			rec(append(buf, a), depth+1)
		}
	}
	rec(make([]byte, 0, 16), 0)
	r.Count("enumerated_keys", int64(n))
	// (b) random binary keys incl. invalid UTF-8 and multi-byte runes before braces
	rng := c.Rng.Split(2)
	for i := 0; i < c.N(60000, 600000); i++ {
		l := rng.Range(0, 40)
		k := rng.Bytes(l)
		for j := 0; j < rng.Intn(5); j++ {
			if len(k) == 0 {
				break
			}
			k[rng.Intn(len(k))] = "{}"[rng.Intn(2)]
		}
		if rng.Chance(1, 4) {
			k = append([]byte("héé\xff\xfe世"), k...)
		}
		check(k, "rand")
	}
	// (b1) very long keys and hash tags (lengths around 2^8 and 2^16)
	for _, n := range []int{255, 256, 257, 65535, 65536, 65537, 70000, 131072, 200000} {
		k := rng.Bytes(n)
		for j := range k {
			if k[j] == '{' || k[j] == '}' {
				k[j] = 'x'
			}
		}
		check(k, "long")
		tagged := append(append([]byte("pre{"), k...), []byte("}post")...)
		check(tagged, "long-tag")
		shortTag := append([]byte("{ab}"), k...)
		check(shortTag, "long-key-short-tag")
		r.Count("very_long_keys", 3)
	}
	// (b2) the slot of a key does not depend on who else is asking: 8 goroutines at the same time
	{
		var wg sync.WaitGroup
		var mu sync.Mutex
		first := ""
		var calls int64
		for w := 0; w < 8; w++ {
			wg.Add(1)
			wr := c.Rng.Split(uint64(0xC15000 + w))
			go func(wr *prng.R) {
				defer wg.Done()
				for i := 0; i < c.N(5000, 100000); i++ {
					k := wr.Bytes(wr.Range(0, 40))
					if len(k) > 4 && wr.Bool() {
						k[wr.Intn(len(k))], k[wr.Intn(len(k))] = '{', '}'
					}
					if g, w := int(utils.KeyToSlot(string(k))), refcrc.Slot(k); g != w {
						mu.Lock()
						if first == "" {
							first = fmt.Sprintf("KeyToSlot(%q)=%d while 8 goroutines were hashing, Cluster specification gives %d", k, g, w)
						}
						mu.Unlock()
						return
					}
					atomic.AddInt64(&calls, 1)
				}
			}(wr)
		}
		wg.Wait()
		r.Case("keytoslot|concurrent")
		r.Count("concurrent_keytoslot_calls", calls)
		if first != "" {
			r.Violationf("C15|keytoslot|outcome=other-slot-under-concurrent-use", nil, "%s", first)
		}
	}
	// CRC16 copies
	bad := 0
	for i := 0; i < c.N(30000, 200000); i++ {
		k := rng.Bytes(rng.Range(0, 64))
		if i < 12 {
			k = rng.Bytes([]int{255, 256, 65535, 65536, 65537, 100000}[i%6]) // lengths around 2^8 and 2^16
		}
		want := refcrc.CRC16(k)
		if g := utils.VerifCRC16(string(k)); g != want && bad < 3 {
			bad++
			r.Violationf("C15|crc16|copy=common", fmt.Sprintf("%x", truncB(k, 100)), "common.crc16(%x... %d bytes)=%#x want %#x", truncB(k, 40), len(k), g, want)
		}
		if g := latencymonitor.VerifCRC16(string(k)); g != want && bad < 6 {
			bad++
			r.Violationf("C15|crc16|copy=latencymonitor", fmt.Sprintf("%x", truncB(k, 100)), "latencymonitor.crc16(%x... %d bytes)=%#x want %#x", truncB(k, 40), len(k), g, want)
		}
		// redis-go-cluster's GetSlot (used by ChoseSlotInRange): no braces in k => whole key
		hasBrace := false
		for _, ch := range k {
			if ch == '{' || ch == '}' {
				hasBrace = true
			}
		}
		if !hasBrace {
			if g, err := rgc.GetSlot(k); err == nil && int(g) != int(want)&16383 && bad < 9 {
				bad++
				r.Violationf("C15|crc16|copy=redis-go-cluster", fmt.Sprintf("%x", k), "GetSlot(%x)=%d want %d", k, g, int(want)&16383)
			}
		}
		r.Case("")
		r.Count("crc16_triples", 1)
	}
	// checkpoint key in range
	type rg struct{ l, r int }
	var ranges []rg
	if c.Thorough() {
		for s := 0; s < 16384; s++ {
			ranges = append(ranges, rg{s, s})
		}
	} else {
		for i := 0; i < 192; i++ {
			s := rng.Intn(16384)
			ranges = append(ranges, rg{s, s})
		}
		ranges = append(ranges, rg{0, 0}, rg{16383, 16383})
	}
	for i := 0; i < c.N(500, 5000); i++ {
		a, b := rng.Intn(16384), rng.Intn(16384)
		if a > b {
			a, b = b, a
		}
		ranges = append(ranges, rg{a, b})
	}
	ranges = append(ranges, rg{0, 16383}, rg{0, 5460}, rg{5461, 10922}, rg{10923, 16383})
	// one process answers for many shards, one call after the other: families of ranges that a lossy memo key would
	// confuse - the same decimal digits split at different places ([1,112] / [11,12]), the same left or right
	// boundary, the same width
	related := 0
	for f := 0; f < c.N(150, 1500); f++ {
		digits := strconv.Itoa(rng.Range(100, 999999))
		for cut := 1; cut < len(digits); cut++ {
			l, _ := strconv.Atoi(digits[:cut])
			rr, _ := strconv.Atoi(digits[cut:])
			if digits[cut] != '0' && l <= rr && rr <= 16383 {
				ranges = append(ranges, rg{l, rr})
				related++
			}
		}
	}
	for f := 0; f < c.N(20, 200); f++ {
		a, w := rng.Intn(16000), rng.Range(40, 300)
		for k := 0; k < 4; k++ {
			ranges = append(ranges, rg{a, a + rng.Range(40, 383)})                 // same left
			ranges = append(ranges, rg{sub15(a+383, rng.Range(40, 383)), a + 383}) // same right
			b := rng.Intn(16000)
			ranges = append(ranges, rg{b, b + w}) // same width
			related += 3
		}
	}
	r.Count("chose_ranges_related_by_digits_or_boundary", int64(related))
	wk.Parallel(len(ranges), 16, func(i int) {
		g := ranges[i]
		name := utils.ChoseSlotInRange(utils.CheckpointKey, g.l, g.r)
		width := "single"
		if g.r > g.l {
			width = "range"
		}
		r.Case("chose|" + width + "|" + fmt.Sprint(len(name)))
		r.Count("chose_ranges", 1)
		s := refcrc.Slot([]byte(name))
		if name == "" || s < g.l || s > g.r {
			r.Violationf("C15|chose|outcome=outside-range", map[string]interface{}{"l": g.l, "r": g.r, "name": name}, "ChoseSlotInRange(%q,%d,%d)=%q hashes to slot %d", utils.CheckpointKey, g.l, g.r, name, s)
			return
		}
		if int(utils.KeyToSlot(name)) != s {
			r.Violationf("C15|chose|outcome=keytoslot-disagrees", name, "KeyToSlot(%q)=%d but spec slot %d", name, utils.KeyToSlot(name), s)
		}
		if !filter.FilterKey(name) {
			r.Violationf("C15|chose|outcome=not-filtered", name, "checkpoint key %q is not excluded by FilterKey", name)
		}
	})
	// with a key whitelist configured the checkpoint key must still be excluded
	conf.Options.FilterKeyWhitelist = []string{"redis-shake", "r"}
	for i := 0; i < 50; i++ {
		s := rng.Intn(16384)
		name := utils.ChoseSlotInRange(utils.CheckpointKey, s, s)
		r.Case("chose-wl")
		if !filter.FilterKey(name) {
			r.Violationf("C15|chose|outcome=not-filtered-under-whitelist", name, "checkpoint key %q passes FilterKey under a whitelist that lists its prefix", name)
		}
	}
	conf.Options = conf.Configuration{}
	// latency monitor synthetic key
	lr := ranges
	if len(lr) > c.N(300, 3000) {
		lr = lr[len(lr)-c.N(300, 3000):]
	}
	var latStuck int32
	wk.Parallel(len(lr), 16, func(i int) {
		g := lr[i]
		if g.r-g.l < 3 && !c.Thorough() {
			return // a singleton search scans ~16k candidates; keep quick cheap
		}
		if atomic.LoadInt32(&latStuck) != 0 {
			return
		}
		// the search has no bound of its own: one that does not come back (the unchanged code needs milliseconds per
		// range, every range holds thousands of candidate keys) is a verdict, not something to wait out
		kc := make(chan string, 1)
		go func() { kc <- latencymonitor.VerifFindKeyInRange(g.l, g.r) }()
		var k string
		select {
		case k = <-kc:
		case <-time.After(90 * time.Second):
			if atomic.CompareAndSwapInt32(&latStuck, 0, 1) {
				r.Violationf("C15|latencykey|outcome=search-does-not-terminate", map[string]interface{}{"l": g.l, "r": g.r}, "findKeyInRange(%d,%d) did not return within 90 s", g.l, g.r)
			}
			return
		}
		r.Case("latkey|" + fmt.Sprint(len(k)))
		r.Count("latency_ranges", 1)
		s := refcrc.Slot([]byte(k))
		if s < g.l || s > g.r {
			r.Violationf("C15|latencykey|outcome=outside-range", map[string]interface{}{"l": g.l, "r": g.r, "key": k}, "findKeyInRange(%d,%d)=%q hashes to %d", g.l, g.r, k, s)
		}
	})
	r.Floor("enumerated_keys", 1000)
	r.Floor("chose_ranges", 100)
	r.Sample(map[string]interface{}{"key": "{a}{b}", "reference_slot": refcrc.Slot([]byte("{a}{b}")), "tool_slot": utils.KeyToSlot("{a}{b}")})
	r.Sample(map[string]interface{}{"range": []int{5461, 10922}, "checkpoint_key": utils.ChoseSlotInRange(utils.CheckpointKey, 5461, 10922)})
	r.Assume("reference CRC16/XMODEM and hash-tag rule typed from the Redis Cluster specification (check values 0x31C3 and the three spec examples verified on every run)")
}
