package pshake

import (
	"encoding/json"
	"fmt"
	"sort"
	"strconv"
	"sync"
	"time"

	"github.com/alibaba/RedisShake/pkg/libs/log"
	"github.com/alibaba/RedisShake/redis-shake/checkpoint"
	conf "github.com/alibaba/RedisShake/redis-shake/configure"

	"verif/harness/lib/miniredis"
	"verif/harness/lib/prng"
	"verif/harness/lib/rdbgen"
	"verif/harness/lib/wk"
)

func init() {
	wk.Register("C14", c14)
	wk.RegisterChild("c14states", c14statesChild)
}

type ckptFields struct {
	Source  string `json:"source"`
	Offset  string `json:"offset,omitempty"` // "" = field absent
	RunID   string `json:"runid,omitempty"`
	Version string `json:"version,omitempty"`
}

type ckptDB struct {
	DB       int          `json:"db"`
	HasKey   bool         `json:"has_checkpoint_key"`
	Fields   []ckptFields `json:"fields,omitempty"`
	DataKeys int          `json:"data_keys"`
}

type c14state struct {
	Index    int      `json:"index"`
	Own      string   `json:"own_source"`
	Name     string   `json:"checkpoint_key"`
	DBs      []ckptDB `json:"dbs"`
	Neighbor bool     `json:"prefix_related_source_present"`
}

var prefixFamilies = [][]string{
	{"10.0.0.1:6379", "10.0.0.1:63790", "10.0.0.1:637"},
	{"h:1", "h:10", "h:1-x"},
	{"redis-a:7000", "redis-a:70001", "redis-b:7000"},
	{"offset-host:1", "offset-host:10", "runid.example:6379"},
}

func genC14(rng *prng.R, idx int) *c14state {
	fam := prefixFamilies[rng.Intn(len(prefixFamilies))]
	st := &c14state{Index: idx, Own: fam[rng.Intn(2)], Name: "redis-shake-checkpoint"}
	if rng.Chance(1, 4) {
		st.Name += "-" + string(rng.Alpha(4, "abcdefghijklmnopqrstuvwxyz"))
	}
	others := []string{}
	for _, s := range fam {
		if s != st.Own {
			others = append(others, s)
		}
	}
	others = append(others, "unrelated:6379")
	usedOffsets := map[int64]bool{}
	newOffset := func() string {
		for {
			o := int64(rng.Pick(0, 1, 5, 99, 1000, 1<<31-5, 1<<32-500, 1<<40)) + int64(rng.Intn(1000))
			if !usedOffsets[o] {
				usedOffsets[o] = true
				return strconv.FormatInt(o, 10)
			}
		}
	}
	for _, db := range []int{0, 1, 5, 15} {
		if rng.Chance(1, 3) {
			continue // database empty
		}
		d := ckptDB{DB: db, DataKeys: rng.Pick(0, 0, 1, 3)}
		if rng.Chance(3, 4) {
			d.HasKey = true
			// own fields
			switch rng.Intn(8) {
			case 0: // none of ours
			case 1: // offset without runid
				d.Fields = append(d.Fields, ckptFields{Source: st.Own, Offset: newOffset(), Version: "1"})
			case 2: // runid without offset (cleared / partially written)
				d.Fields = append(d.Fields, ckptFields{Source: st.Own, RunID: runid(rng), Version: rng.PickS("1", "")})
			case 3: // version too old or absent
				d.Fields = append(d.Fields, ckptFields{Source: st.Own, Offset: newOffset(), RunID: runid(rng), Version: rng.PickS("0", "", "0")})
			case 4: // newer version
				d.Fields = append(d.Fields, ckptFields{Source: st.Own, Offset: newOffset(), RunID: runid(rng), Version: "2"})
			default:
				d.Fields = append(d.Fields, ckptFields{Source: st.Own, Offset: newOffset(), RunID: runid(rng), Version: "1"})
			}
			for _, o := range others {
				if rng.Chance(1, 2) {
					f := ckptFields{Source: o, Offset: newOffset(), RunID: runid(rng), Version: rng.PickS("1", "1", "0", "")}
					if rng.Chance(1, 5) {
						f.RunID = ""
					}
					d.Fields = append(d.Fields, f)
					if o != "unrelated:6379" {
						st.Neighbor = true
					}
				}
			}
		}
		if !d.HasKey && d.DataKeys == 0 {
			d.DataKeys = 1
		}
		st.DBs = append(st.DBs, d)
	}
	return st
}

func runid(rng *prng.R) string { return string(rng.Alpha(40, "0123456789abcdef")) }

func buildTarget(st *c14state) *miniredis.Server {
	srv := miniredis.NewServer()
	for _, d := range st.DBs {
		for k := 0; k < d.DataKeys; k++ {
			srv.Put(d.DB, fmt.Sprintf("data-%d", k), &rdbgen.Value{Kind: "string", Str: []byte("v")}, 0)
		}
		if !d.HasKey {
			continue
		}
		h := &rdbgen.Value{Kind: "hash"}
		for _, f := range d.Fields {
			// the sender writes runid, version, then offset
			if f.RunID != "" {
				h.Hash = append(h.Hash, [2][]byte{[]byte(f.Source + "-runid"), []byte(f.RunID)})
			}
			if f.Version != "" {
				h.Hash = append(h.Hash, [2][]byte{[]byte(f.Source + "-version"), []byte(f.Version)})
			}
			if f.Offset != "" {
				h.Hash = append(h.Hash, [2][]byte{[]byte(f.Source + "-offset"), []byte(f.Offset)})
			}
		}
		if len(h.Hash) == 0 {
			h.Hash = append(h.Hash, [2][]byte{[]byte("someone-else:1-offset"), []byte("12")})
		}
		srv.Put(d.DB, st.Name, h, 0)
	}
	return srv
}

type c14expect struct {
	none    bool // no own checkpoint
	refuse  bool
	offset  int64
	runid   string
	db      int
	version int64
}

func reference(st *c14state) c14expect {
	ex := c14expect{none: true, offset: -1}
	for _, d := range st.DBs {
		for _, f := range d.Fields {
			if f.Source != st.Own || f.Offset == "" {
				continue
			}
			o, _ := strconv.ParseInt(f.Offset, 10, 64)
			if o > ex.offset {
				ex.none = false
				ex.offset, ex.db = o, d.DB
				ex.runid = f.RunID
				ex.version = 0
				if f.Version != "" {
					ex.version, _ = strconv.ParseInt(f.Version, 10, 64)
				}
			}
		}
	}
	if !ex.none {
		if ex.version < 1 {
			ex.refuse = true
		}
		if ex.runid == "" {
			ex.runid, ex.db = "?", -1
		}
	}
	return ex
}

func hashAsMap(e *miniredis.Entry) map[string]string {
	m := map[string]string{}
	if e == nil {
		return m
	}
	for _, p := range e.Val.Hash {
		m[string(p[0])] = string(p[1])
	}
	return m
}

func c14statesChild(raw json.RawMessage, scratch string) {
	a := wk.ParseBatchArg(raw, nil)
	log.SetLevel(log.LEVEL_NONE)
	r := wk.ChildRes("C14")
	base := prng.New(a.Seed).Split(0xC14)
	conf.Options = conf.Configuration{}
	// one listener for the whole batch (a fresh port per state exhausts the ephemeral range in the thorough tier)
	tcp, lerr0 := miniredis.NewServer().ListenTCP()
	if lerr0 != nil {
		r.Inconcl("cannot listen: " + lerr0.Error())
		wk.ChildDone(r)
		return
	}
	defer tcp.Close()
	for i := a.Start; i < a.End; i++ {
		rng := base.At(uint64(i))
		st := genC14(rng, i)
		wk.ChildCase(i, st)
		ex := reference(st)
		for rep := 0; rep < 5; rep++ { // map iteration order inside LoadCheckpoint is random
			srv := buildTarget(st)
			tcp.SetServer(srv)
			before := srv.Snapshot()
			gotRun, gotOff, gotDB, lerr := checkpoint.LoadCheckpoint(0, st.Own, []string{tcp.Addr}, "auth", "", st.Name, false, false)
			after := srv.Snapshot()
			nb := map[bool]string{true: "yes", false: "no"}[st.Neighbor]
			sig := func(o string) string { return "C14|outcome=" + o + "|prefix-neighbour=" + nb }
			rep1 := map[string]interface{}{"state": st, "returned": fmt.Sprintf("runid=%q offset=%d db=%d err=%v", gotRun, gotOff, gotDB, lerr)}
			bad := false
			switch {
			case ex.refuse:
				if lerr == nil {
					r.Violationf(sig("old-version-accepted"), rep1, "newest own checkpoint (offset %d, db %d) has version %d < required 1 but was accepted: returned (%q,%d,%d)", ex.offset, ex.db, ex.version, gotRun, gotOff, gotDB)
					bad = true
				}
			case lerr != nil:
				r.Violationf(sig("unexpected-error"), rep1, "LoadCheckpoint failed: %v (expected offset %d)", lerr, ex.offset)
				bad = true
			case ex.none:
				if gotOff != -1 {
					r.Violationf(sig("checkpoint-invented"), rep1, "no checkpoint of %q exists but offset %d (runid %q, db %d) was returned", st.Own, gotOff, gotRun, gotDB)
					bad = true
				}
			default:
				if gotOff != ex.offset {
					r.Violationf(sig("wrong-offset"), rep1, "returned offset %d, newest checkpoint of %q is %d (db %d)", gotOff, st.Own, ex.offset, ex.db)
					bad = true
				} else if gotRun != ex.runid {
					r.Violationf(sig("wrong-runid"), rep1, "returned run id %q, the newest checkpoint's is %q", gotRun, ex.runid)
					bad = true
				} else if gotDB != ex.db {
					r.Violationf(sig("wrong-db"), rep1, "returned database %d, expected %d", gotDB, ex.db)
					bad = true
				}
			}
			if !bad && !ex.refuse && lerr == nil {
				// keyspace afterwards
				for _, d := range st.DBs {
					bm, am := hashAsMap(before[d.DB][st.Name]), hashAsMap(after[d.DB][st.Name])
					for f, v := range bm {
						own := f == st.Own+"-offset" || f == st.Own+"-runid"
						keep := !own || (!ex.none && d.DB == ex.db)
						if own && ex.none {
							keep = false // nothing chosen: leftovers (runid without offset) are stale
							if _, has := am[f]; has && d.DB == 0 {
								keep = true // the tool keeps db 0 when nothing is chosen; the statement does not forbid it
								am[f] = v
							}
						}
						if keep {
							if am[f] != v {
								what := "other-source-field-modified"
								if own {
									what = "chosen-checkpoint-cleared"
								}
								r.Violationf(sig(what), rep1, "db %d field %q was %q, now %q", d.DB, f, v, am[f])
								bad = true
							}
						} else if _, still := am[f]; still {
							r.Violationf(sig("stale-checkpoint-kept"), rep1, "db %d still holds the stale field %q of the own source (chosen db %d)", d.DB, f, ex.db)
							bad = true
						}
					}
					for k := 0; k < d.DataKeys && !bad; k++ {
						if after[d.DB][fmt.Sprintf("data-%d", k)] == nil {
							r.Violationf(sig("data-key-removed"), rep1, "db %d data key removed", d.DB)
							bad = true
						}
					}
				}
			}
			if bad {
				break
			}
		}
		// every source of a multi-source sync loads its checkpoint at start-up, at the same time, from the same target
		srcs := map[string]bool{}
		for _, d := range st.DBs {
			for _, f := range d.Fields {
				srcs[f.Source] = true
			}
		}
		if len(srcs) >= 2 && r.NViolations() == 0 {
			srv := buildTarget(st)
			tcp.SetServer(srv)
			type ret struct {
				own  string
				run  string
				off  int64
				db   int
				err  error
				want c14expect
			}
			var rets []*ret
			for sname := range srcs {
				st2 := *st
				st2.Own = sname
				rets = append(rets, &ret{own: sname, want: reference(&st2)})
			}
			var wg sync.WaitGroup
			for k, x := range rets {
				wg.Add(1)
				go func(k int, x *ret) {
					defer wg.Done()
					x.run, x.off, x.db, x.err = checkpoint.LoadCheckpoint(k, x.own, []string{tcp.Addr}, "auth", "", st.Name, false, false)
				}(k, x)
			}
			wg.Wait()
			r.Count("concurrent_multi_source_loads", 1)
			after := srv.Snapshot()
			for _, x := range rets {
				rep1 := map[string]interface{}{"state": st, "loading_source": x.own, "returned": fmt.Sprintf("runid=%q offset=%d db=%d err=%v", x.run, x.off, x.db, x.err)}
				switch {
				case x.want.refuse:
					if x.err == nil {
						r.Violationf("C14|concurrent-sources|outcome=old-version-accepted", rep1, "source %q: newest checkpoint has version %d < 1 but was accepted while %d sources loaded at the same time", x.own, x.want.version, len(rets))
					}
				case x.err != nil:
					r.Violationf("C14|concurrent-sources|outcome=unexpected-error", rep1, "source %q: LoadCheckpoint failed while %d sources loaded at the same time: %v", x.own, len(rets), x.err)
				case x.want.none:
					if x.off != -1 {
						r.Violationf("C14|concurrent-sources|outcome=checkpoint-invented", rep1, "source %q has no checkpoint but got offset %d", x.own, x.off)
					}
				case x.off != x.want.offset || x.run != x.want.runid || x.db != x.want.db:
					r.Violationf("C14|concurrent-sources|outcome=wrong-checkpoint", rep1, "source %q got (%q,%d,db %d) while %d sources loaded at the same time; its newest checkpoint is (%q,%d,db %d)", x.own, x.run, x.off, x.db, len(rets), x.want.runid, x.want.offset, x.want.db)
				default:
					if x.want.db >= 0 {
						m := hashAsMap(after[x.want.db][st.Name])
						if m[x.own+"-offset"] != strconv.FormatInt(x.want.offset, 10) {
							r.Violationf("C14|concurrent-sources|outcome=chosen-checkpoint-cleared", rep1, "source %q: its chosen checkpoint (db %d, offset %d) is gone after %d sources loaded at the same time (field now %q)", x.own, x.want.db, x.want.offset, len(rets), m[x.own+"-offset"])
						}
					}
				}
			}
		}
		cls := "none"
		if ex.refuse {
			cls = "refuse"
		} else if !ex.none {
			cls = "pick"
			if ex.runid == "?" {
				cls = "pick-norunid"
			}
		}
		dbs := []string{}
		for _, d := range st.DBs {
			dbs = append(dbs, fmt.Sprintf("%d:%d", d.DB, len(d.Fields)))
		}
		sort.Strings(dbs)
		r.Case(fmt.Sprintf("%s|%v|%v|%s", cls, st.Neighbor, dbs, st.Own))
		r.Count("states", 1)
		r.Count("class:"+cls, 1)
		if st.Neighbor {
			r.Count("states_with_prefix_neighbour", 1)
		}
		if i == a.Start {
			r.Sample(map[string]interface{}{"state": st, "expected": fmt.Sprintf("%+v", ex)})
		}
	}
	wk.ChildDone(r)
}

func c14(c *wk.Ctx) {
	r := c.R
	r.Rule = "target states built as the incremental sender writes them (hash <checkpoint key> with <source>-runid/-version/-offset) for 1-4 sources whose addresses are prefixes of one another, over databases {0,1,5,15}, with partial (offset without runid, runid without offset), old/absent/newer version fields and data keys; checkpoint.LoadCheckpoint runs against a loopback model target 5x per state (map order); returned (runid, offset, db, error) and the keyspace afterwards are compared with a reference 'newest own checkpoint' function; in multi-source states all sources also load at the same time; writer/reader agreement: multi-database streams with transactions and SELECTs inside them go through the real incremental sender (resume on) into a model target and LoadCheckpoint must then return the run id the sender was given and the position and database of the last forwarded command (every second stream starts in a database that holds the previous run's checkpoint under another run id). distinct = (class, neighbour present, per-db field counts, own source)"
	onDeath := func(d wk.Death) {
		if d.Result.TimedOut {
			r.Inconcl("C14 child watchdog")
			return
		}
		r.Violationf("C14|outcome=process-aborted", json.RawMessage(d.Desc), "LoadCheckpoint ended the process (exit %d): %s", d.Result.Exit, firstPanicLine(d.Result.Stderr))
	}
	if wk.ReplayOne(c, "c14states", nil, onDeath) {
		return
	}
	n := c.N(800, 16000)
	parts := 8
	na := c.N(24, 480)
	wk.Parallel(parts+4, 12, func(p int) {
		if p >= parts {
			q := p - parts
			wk.RunBatch(c, "c14agree", 5000000+na*q/4, 5000000+na*(q+1)/4, nil, 20*time.Minute, onDeath)
			return
		}
		wk.RunBatch(c, "c14states", n*p/parts, n*(p+1)/parts, nil, 20*time.Minute, onDeath)
	})
	r.Floor("writer_reader_agreement_streams", 20)
	r.Floor("states", 300)
	r.Floor("states_with_prefix_neighbour", 50)
	for _, cl := range []string{"none", "pick", "pick-norunid", "refuse"} {
		r.Floor("class:"+cl, 10)
	}
	r.Assume("reference: among databases, fields named exactly <own>-offset/-runid/-version; greatest offset wins; version < 1 (or absent) refused; no run id => (\"?\", offset, -1); afterwards no other database holds own -runid/-offset. Equal offsets in two databases are not generated (the statement does not order them).")
}
