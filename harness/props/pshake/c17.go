package pshake

import (
	"bufio"
	"bytes"
	"encoding/base64"
	"encoding/json"
	"fmt"
	"io/ioutil"
	"math"
	"os"
	"path/filepath"
	"runtime"
	"sort"
	"strings"
	"syscall"
	"time"

	"github.com/alibaba/RedisShake/pkg/libs/log"
	run "github.com/alibaba/RedisShake/redis-shake"
	conf "github.com/alibaba/RedisShake/redis-shake/configure"

	"verif/harness/lib/prng"
	"verif/harness/lib/rdbgen"
	"verif/harness/lib/wk"
)

func init() {
	wk.Register("C17", c17)
	wk.RegisterChild("c17files", c17filesChild)
}

type c17desc struct {
	Index     int      `json:"index"`
	Parallel  int      `json:"parallel"`
	Keys      int      `json:"keys"`
	Items     []string `json:"items"`
	Nonfinite bool     `json:"has_inf_or_nan_score"`
	BigHash   bool     `json:"has_hash_above_16MiB"`
	FileHex   string   `json:"file_hex,omitempty"`
}

func b64(b []byte) string { return base64.StdEncoding.EncodeToString(b) }

// expectedLines renders the multiset of lines (canonical strings) the decode output must contain.
func expectedLines(recs []rdbgen.Record) (lines []string, scripts int) {
	for _, x := range recs {
		if x.IsScript {
			scripts++
			continue
		}
		v := x.Logical
		pre := fmt.Sprintf("db=%d|exp=%d|key=%s|", x.DB, x.ExpireAt, b64(x.Key))
		switch v.Kind {
		case "string":
			lines = append(lines, pre+"string|"+b64(v.Str))
		case "list":
			for i, e := range v.List {
				lines = append(lines, pre+fmt.Sprintf("list|%d|%s", i, b64(e)))
			}
		case "set":
			for _, e := range v.List {
				lines = append(lines, pre+"set|"+b64(e))
			}
		case "hash":
			for _, p := range v.Hash {
				lines = append(lines, pre+"hash|"+b64(p[0])+"|"+b64(p[1]))
			}
		case "zset":
			for _, z := range v.ZSet {
				lines = append(lines, pre+"zset|"+b64(z.Member)+"|"+fmt.Sprintf("%x", math.Float64bits(z.Score+0)))
			}
		}
	}
	sort.Strings(lines)
	return
}

// parseOutput converts the decode output into the same canonical strings.
func parseOutput(out []byte) (lines []string, scripts []string, bad string) {
	sc := bufio.NewScanner(bytes.NewReader(out))
	sc.Buffer(make([]byte, 1<<20), 1<<28)
	for sc.Scan() {
		if len(sc.Bytes()) == 0 {
			continue
		}
		var m map[string]interface{}
		d := json.NewDecoder(bytes.NewReader(sc.Bytes()))
		d.UseNumber()
		if err := d.Decode(&m); err != nil {
			return nil, nil, "output line is not JSON: " + string(truncB(sc.Bytes(), 120))
		}
		typ, _ := m["type"].(string)
		if typ == "aux" {
			v, _ := m["value64"].(string)
			scripts = append(scripts, v)
			continue
		}
		get := func(k string) string { s, _ := m[k].(string); return s }
		num := func(k string) string {
			if n, ok := m[k].(json.Number); ok {
				return n.String()
			}
			return "?"
		}
		key64 := get("key64")
		kb, err := base64.StdEncoding.DecodeString(key64)
		if err != nil {
			return nil, nil, "key64 is not base64"
		}
		pre := fmt.Sprintf("db=%s|exp=%s|key=%s|", num("db"), num("expireat"), b64(kb))
		switch typ {
		case "string":
			lines = append(lines, pre+"string|"+get("value64"))
		case "list":
			lines = append(lines, pre+"list|"+num("index")+"|"+get("value64"))
		case "set":
			lines = append(lines, pre+"set|"+get("member64"))
		case "hash":
			lines = append(lines, pre+"hash|"+get("field64")+"|"+get("value64"))
		case "zset":
			f, err := m["score"].(json.Number).Float64()
			if err != nil {
				return nil, nil, "score is not a number"
			}
			lines = append(lines, pre+"zset|"+get("member64")+"|"+fmt.Sprintf("%x", math.Float64bits(f+0)))
		default:
			return nil, nil, "unknown line type " + typ
		}
	}
	sort.Strings(lines)
	return
}

func c17filesChild(raw json.RawMessage, scratch string) {
	a := wk.ParseBatchArg(raw, nil)
	log.SetLevel(log.LEVEL_ERROR)
	r := wk.ChildRes("C17")
	base := prng.New(a.Seed).Split(0xC17)
	for i := a.Start; i < a.End; i++ {
		if _, err := os.Stat(filepath.Join(filepath.Dir(scratch), "c17.stuck")); err == nil {
			r.Note("decode batch cut short after a run-does-not-end verdict")
			break
		}
		rng := base.At(uint64(i))
		special := ""
		switch {
		case i%40 == 7:
			special = "nonfinite"
		case i >= 900000:
			special = "bighash"
		}
		o := rdbgen.FileOpts{MaxKeys: rng.Pick(1, 4, 12, 40), MaxElems: rng.Pick(3, 20, 70, 130), Metadata: rng.Chance(2, 3), MultiDB: rng.Chance(2, 3), Expiry: true, ClassicOnly: true}
		f := rdbgen.RandFile(rng, o)
		nonfinite := false
		for _, it := range f.Items {
			if it.Key == nil || it.Key.Val.Kind != "zset" {
				continue
			}
			for zi := range it.Key.Val.ZSet {
				z := &it.Key.Val.ZSet[zi]
				if math.IsInf(z.Score, 0) || math.IsNaN(z.Score) {
					if special == "nonfinite" {
						nonfinite = true
					} else {
						z.Score = float64(rng.Range(-9, 9)) // keep the predicted finding on its own schedule
					}
				}
			}
		}
		if special == "nonfinite" && !nonfinite {
			zs := &rdbgen.Value{Kind: "zset", ZSet: []rdbgen.ZEntry{{Member: []byte("a"), Score: 1}, {Member: []byte("inf"), Score: math.Inf(1)}, {Member: []byte("ninf"), Score: math.Inf(-1)}}}
			f.Items = append(f.Items, rdbgen.Item{Key: &rdbgen.KeySpec{DB: 0, Key: []byte(fmt.Sprintf("zset-with-inf-%d", i)), Val: zs, Enc: rng.PickS("zset1", "zset2")}})
			nonfinite = true
		}
		if special == "bighash" {
			hv := &rdbgen.Value{Kind: "hash"}
			for k := 0; k < 20; k++ {
				val := bytes.Repeat([]byte{byte('a' + k%26)}, 1<<20)
				hv.Hash = append(hv.Hash, [2][]byte{[]byte(fmt.Sprintf("field-%d", k)), val})
			}
			f.Items = append(f.Items, rdbgen.Item{Key: &rdbgen.KeySpec{DB: 0, Key: []byte("big-hash"), Val: hv, Enc: "table"}})
		}
		data, recs := rdbgen.Build(rng, f, rng.Pick(0, 0, 3))
		par := rng.Pick(1, 2, 4, 16, 64)
		d := c17desc{Index: i, Parallel: par, Keys: len(recs), Items: describeFile(f, recs), Nonfinite: nonfinite, BigHash: special == "bighash"}
		if len(d.Items) > 60 {
			d.Items = d.Items[:60]
		}
		if len(data) <= 2000 {
			d.FileHex = fmt.Sprintf("%x", data)
		}
		wk.ChildCase(i, d)
		in := filepath.Join(scratch, fmt.Sprintf("in-%d.rdb", i))
		outp := filepath.Join(scratch, fmt.Sprintf("out-%d", i))
		if i%3 == 0 && special == "" && syscall.Mkfifo(in, 0644) == nil {
			// the input is a named pipe (decode of a stream that is still being produced): the reader gets the bytes in the
			// pieces the producer writes them in, so that strings, lengths and opcodes are split over several reads
			r.Count("runs_reading_from_a_named_pipe", 1)
			wr := rng.At(0xF1F0)
			go func(data []byte) {
				f, err := os.OpenFile(in, os.O_WRONLY, 0)
				if err != nil {
					return
				}
				defer f.Close()
				for len(data) > 0 {
					n := wr.Pick(1, 2, 3, 7, 64, 500, 4096, 70000)
					if n > len(data) {
						n = len(data)
					}
					if _, err := f.Write(data[:n]); err != nil {
						return
					}
					data = data[n:]
					if wr.Chance(1, 3) {
						time.Sleep(time.Duration(wr.Intn(300)) * time.Microsecond)
					} else {
						runtime.Gosched()
					}
				}
			}(data)
		} else {
			ioutil.WriteFile(in, data, 0644)
		}
		inputs, outIdx := []string{in}, 0
		if i%5 == 2 && special == "" {
			// decode takes a list of input files and handles them one after the other: this case's file comes second
			filler := filepath.Join(scratch, fmt.Sprintf("in-%d-first.rdb", i))
			ff := rdbgen.RandFile(rng, rdbgen.FileOpts{MaxKeys: 12, MaxElems: 8, Metadata: true, MultiDB: true, Expiry: true, ClassicOnly: true})
			for _, it := range ff.Items {
				if it.Key != nil && it.Key.Val.Kind == "zset" {
					for zi := range it.Key.Val.ZSet {
						if z := &it.Key.Val.ZSet[zi]; math.IsInf(z.Score, 0) || math.IsNaN(z.Score) {
							z.Score = 1 // non-finite scores are a recorded finding with its own schedule
						}
					}
				}
			}
			fd, _ := rdbgen.Build(rng, ff, 0)
			ioutil.WriteFile(filler, fd, 0644)
			defer os.Remove(filler)
			defer os.Remove(outp + ".0")
			inputs, outIdx = []string{filler, in}, 1
			r.Count("runs_with_two_input_files", 1)
		}
		outFile := fmt.Sprintf("%s.%d", outp, outIdx)
		if i%4 == 1 && special == "" {
			// an older, longer output of an earlier run sits at the output path
			ioutil.WriteFile(outFile, bytes.Repeat([]byte("{\"stale\":\"line of an earlier decode run\"}\n"), 20000), 0644)
			r.Count("runs_over_an_existing_longer_output", 1)
		}
		conf.Options = conf.Configuration{SourceRdbInput: inputs, TargetRdbOutput: outp, Parallel: par, Type: conf.TypeDecode}
		cmd := &run.CmdDecode{}
		done := make(chan struct{})
		go func() { cmd.Main(); close(done) }()
		ended := false
		select {
		case <-done:
			ended = true
		case <-time.After(60 * time.Second):
		}
		if !ended {
			// "the run ends when the file is exhausted": if everything the file holds has been printed and the command is
			// still running a minute after it was started (the unchanged code needs well under a second per file), it does
			// not end. Decided on the output being complete; without that the watchdog only says inconclusive.
			complete := false
			if out, err := ioutil.ReadFile(outFile); err == nil {
				want, nscripts := expectedLines(recs)
				got, scripts, bad := parseOutput(out)
				complete = bad == "" && len(scripts) == nscripts && multisetDiff(want, got) == ""
			}
			if complete {
				select {
				case <-done: // it ended after all, just now
					ended = true
				case <-time.After(20 * time.Second):
				}
			}
			if !ended {
				if complete {
					r.Violationf("C17|decode|outcome=run-does-not-end-after-the-file-was-exhausted", d, "every element of file %d is in the output (parallel=%d), yet CmdDecode.Main() has not returned 80 s after it was started", i, par)
					ioutil.WriteFile(filepath.Join(filepath.Dir(scratch), "c17.stuck"), []byte("x"), 0644)
				} else {
					r.Inconcl(fmt.Sprintf("decode of file %d did not end within the watchdog (output incomplete)", i))
				}
				os.Remove(in)
				break // the command of this case keeps running (and spinning): the child ends here
			}
		}
		out, err := ioutil.ReadFile(outFile)
		os.Remove(in)
		os.Remove(outFile)
		if err != nil {
			r.Violationf("C17|decode|outcome=no-output-file", d, "no output file: %v", err)
			continue
		}
		want, nscripts := expectedLines(recs)
		got, scripts, bad := parseOutput(out)
		encs := map[string]bool{}
		for _, x := range recs {
			encs[encClass(x.Encoding)] = true
		}
		r.Case(fmt.Sprintf("p%d|%v", par, keysOf(encs)))
		r.Count("files", 1)
		r.Count("elements", int64(len(want)))
		r.Count(fmt.Sprintf("parallel_%d", par), 1)
		if bad != "" {
			r.Violationf("C17|decode|outcome=unparseable-output", d, "%s", bad)
			continue
		}
		if len(scripts) != nscripts {
			r.Violationf("C17|decode|outcome=script-lines-wrong", d, "%d script lines for %d lua scripts", len(scripts), nscripts)
			continue
		}
		if diff := multisetDiff(want, got); diff != "" {
			kind := "element-wrong"
			if len(got) < len(want) {
				kind = "element-missing"
			} else if len(got) > len(want) {
				kind = "element-duplicated-or-extra"
			}
			r.Violationf("C17|decode|outcome="+kind, d, "decode output differs from the file's elements (%d lines, %d expected; parallel=%d): %s", len(got), len(want), par, diff)
			continue
		}
		if i == a.Start {
			r.Sample(map[string]interface{}{"file": d, "output_lines": len(got), "first_line": string(truncB(out, 300))})
		}
	}
	wk.ChildDone(r)
}

func multisetDiff(want, got []string) string {
	i, j := 0, 0
	for i < len(want) && j < len(got) {
		if want[i] == got[j] {
			i++
			j++
			continue
		}
		if want[i] < got[j] {
			return "missing " + describeLine(want[i])
		}
		return "unexpected " + describeLine(got[j])
	}
	if i < len(want) {
		return "missing " + describeLine(want[i])
	}
	if j < len(got) {
		return "unexpected " + describeLine(got[j])
	}
	return ""
}

func describeLine(s string) string {
	if len(s) > 300 {
		s = s[:300]
	}
	return s
}

func c17(c *wk.Ctx) {
	r := c.R
	r.Rule = "generated RDB files (classic types in every encoding, binary keys/values, non-UTF-8, any score, metadata and lua scripts between keys, several databases, expiries) decoded by run.CmdDecode.Main with parallel in {1,2,4,16,64}; the output is parsed and the multiset of (db, expireat, key, type, index|field|member, value, score) must equal the generator's element list, one aux line per script; files with +-Inf/NaN scores and a hash above 16 MiB on a fixed schedule. distinct = (parallel, set of encodings)"
	onDeath := func(d wk.Death) {
		if d.Result.TimedOut {
			r.Inconcl("C17 child watchdog: " + wk.Tail(d.Result.Stderr, 300))
			return
		}
		var cs c17desc
		json.Unmarshal(d.Desc, &cs)
		cause := "other"
		st := string(d.Result.Stderr)
		switch {
		case strings.Contains(st, "unsupported value") && cs.Nonfinite:
			cause = "nonfinite-score"
		case cs.BigHash && strings.Contains(st, "decode failed"):
			cause = "hash-above-chunk-limit"
		}
		r.Count("files", 1)
		r.Violationf("C17|decode|outcome=process-aborted|cause="+cause, json.RawMessage(d.Desc), "decode mode aborted the process (exit %d) instead of printing the file: %s", d.Result.Exit, firstPanicLine(d.Result.Stderr))
	}
	if wk.ReplayOne(c, "c17files", nil, onDeath) {
		return
	}
	n := c.N(600, 12000)
	type job struct{ start, end int }
	var jobs []job
	parts := 12
	for p := 0; p < parts; p++ {
		jobs = append(jobs, job{n * p / parts, n * (p + 1) / parts})
	}
	jobs = append(jobs, job{900000, 900001})
	wk.Parallel(len(jobs), 13, func(i int) {
		wk.RunBatch(c, "c17files", jobs[i].start, jobs[i].end, nil, 30*time.Minute, onDeath)
	})
	r.Floor("runs_reading_from_a_named_pipe", 50)
	r.Floor("files", 300)
	r.Floor("elements", 20000)
	for _, p := range []string{"parallel_1", "parallel_2", "parallel_4", "parallel_16", "parallel_64"} {
		r.Floor(p, 20)
	}
	r.Assume("expected element list comes from the generator (lib/rdbgen); -0 and +0 scores are compared numerically; script lines are counted (their value64 field is not base64 in the tool's format)")
}
