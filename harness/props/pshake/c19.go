package pshake

import (
	"bytes"
	"encoding/json"
	"fmt"
	"github.com/alibaba/RedisShake/redis-shake/dbSync"
	"golang.org/x/sync/semaphore"
	"io/ioutil"
	"os"
	"path/filepath"
	"regexp"
	"strconv"
	"strings"
	"sync"
	"sync/atomic"
	"time"

	"github.com/alibaba/RedisShake/pkg/libs/log"
	run "github.com/alibaba/RedisShake/redis-shake"
	"github.com/alibaba/RedisShake/redis-shake/checkpoint"
	conf "github.com/alibaba/RedisShake/redis-shake/configure"
	"github.com/alibaba/RedisShake/redis-shake/dbSync/slot"
	"github.com/alibaba/RedisShake/redis-shake/dbSync/slotsupervisor"
	"github.com/alibaba/RedisShake/redis-shake/metric"

	"verif/harness/lib/fakesource"
	"verif/harness/lib/miniredis"
	"verif/harness/lib/prng"
	"verif/harness/lib/rdbgen"
	"verif/harness/lib/wk"
)

func init() {
	wk.Register("C19", c19)
	wk.RegisterChild("c19scenario", c19scenarioChild)
}

type c19arg struct {
	Scenario string `json:"scenario"`
	Level    string `json:"level"`
	SrcPw    string `json:"source_password"`
	TgtPw    string `json:"target_password"`
	LogFile  string `json:"log_file"`
}

var c19scenarios = []string{"sync-full-incr-reconnect", "sync-resume-checkpoint", "sync-psync-refused-restart", "restore", "rump", "dump", "supervisor", "supervisor-retries-exhausted", "sync-cluster-source", "sync-cluster-source-resume", "checkpoint-load", "status-documents"}

func setLevel(l string) {
	switch l {
	case "debug":
		log.SetLevel(log.LEVEL_DEBUG)
	case "info":
		log.SetLevel(log.LEVEL_INFO)
	case "warn":
		log.SetLevel(log.LEVEL_WARN)
	default:
		log.SetLevel(log.LEVEL_ERROR)
	}
}

func c19keys(rng *prng.R) []*rdbgen.KeySpec {
	var ks []*rdbgen.KeySpec
	for i := 0; i < 6; i++ {
		kind := []string{"string", "list", "hash", "zset", "set"}[i%5]
		v := rdbgen.RandValue(rng, kind, 3)
		ks = append(ks, &rdbgen.KeySpec{DB: uint32(i % 2), Key: []byte(fmt.Sprintf("k%d", i)), Val: v, Enc: rdbgen.EncodingsFor(v)[0]})
	}
	return ks
}

// c19scenarioChild runs one scenario with the logger redirected into a file; it may end with os.Exit inside the tool.
func c19scenarioChild(raw json.RawMessage, scratch string) {
	var a c19arg
	json.Unmarshal(raw, &a)
	f, err := os.OpenFile(a.LogFile, os.O_CREATE|os.O_WRONLY|os.O_APPEND, 0644)
	if err != nil {
		fmt.Println("@ERR cannot open log file")
		return
	}
	log.StdLog = log.New(f, "")
	setLevel(a.Level)
	rng := prng.New(99)
	extra := func(what string, v interface{}) {
		// status documents and descriptors the tool serves: written to the same file so that the parent scans them too
		b, _ := json.Marshal(v)
		fmt.Fprintf(f, "@DOC %s json=%s fmt=%v plus=%+v\n", what, b, v, v)
	}
	base := conf.Configuration{Id: "verif", SourceType: conf.RedisTypeStandalone, TargetType: conf.RedisTypeStandalone, SourceAuthType: "auth", TargetAuthType: "auth",
		SourcePasswordRaw: a.SrcPw, TargetPasswordRaw: a.TgtPw, SourcePasswordEncoding: a.SrcPw, TargetPasswordEncoding: a.TgtPw, Parallel: 2, HttpProfile: 9320, Psync: true, TargetDB: -1,
		SenderCount: 4, SenderSize: 65535, SenderDelayChannelSize: 65535, Metric: true, MetricPrintLog: true, KeyExists: "rewrite", TargetReplace: true, TargetVersion: "5.0.7",
		BigKeyThreshold: 100, ScanKeyNumber: 5, Qps: 5000, SourceRdbParallel: 1, LogLevel: a.Level, Type: conf.TypeSync}
	newTarget := func() (*miniredis.Server, *miniredis.TCP) {
		srv := miniredis.NewServer()
		srv.Password = a.TgtPw
		tcp, _ := srv.ListenTCP()
		return srv, tcp
	}
	stream := streamBytes(genStream(rng, streamOpts{N: 30, DBs: []int{0, 1}, Modelled: true, Tx: true, Keys: 4, StartDB: -1, Sentinel: true}))
	switch a.Scenario {
	case "sync-full-incr-reconnect", "sync-resume-checkpoint":
		c := base
		c.ResumeFromBreakPoint = a.Scenario == "sync-resume-checkpoint"
		src, _ := fakesource.New(fakesource.Script{RunID: e2eRunID, StartOffset: 100, RDB: minimalRDB(rng, c19keys(rng))}, a.SrcPw)
		srv, tcp := newTarget()
		if c.ResumeFromBreakPoint {
			h := &rdbgen.Value{Kind: "hash", Hash: [][2][]byte{{[]byte(src.Addr + "-runid"), []byte("stale")}, {[]byte(src.Addr + "-version"), []byte("1")}, {[]byte(src.Addr + "-offset"), []byte("5")}}}
			srv.Put(1, ckptKey, h, 0)
		}
		c.SourceAddressList, c.TargetAddressList = []string{src.Addr}, []string{tcp.Addr}
		conf.Options = c
		cmd := &run.CmdSync{}
		metric.CreateMetric(cmd) // as main does before the runner starts
		go cmd.Main()
		src.Feed(stream[:len(stream)/2])
		time.Sleep(1500 * time.Millisecond)
		src.DropNow()
		src.Feed(stream[len(stream)/2:])
		time.Sleep(3 * time.Second)
		extra("CmdSync.GetDetailedInfo", cmd.GetDetailedInfo())
		extra("metric.NewMetricRest", metric.NewMetricRest())
	case "sync-psync-refused-restart":
		c := base
		src, _ := fakesource.New(fakesource.Script{RunID: e2eRunID, StartOffset: 100, RDB: minimalRDB(rng, nil), HonorFirst: true, ResumeMode: "refuse"}, a.SrcPw)
		_, tcp := newTarget()
		c.SourceAddressList, c.TargetAddressList = []string{src.Addr}, []string{tcp.Addr}
		conf.Options = c
		cmd := &run.CmdSync{}
		metric.CreateMetric(cmd) // as main does before the runner starts
		go cmd.Main()
		// the syncer restarts itself until its retry budget ends the process; the status documents are sampled while it
		// does (what they show between two attempts is served like anything else)
		for k := 0; k < 400; k++ {
			if k < 300 {
				time.Sleep(time.Millisecond) // the restarts follow each other within milliseconds
			} else {
				time.Sleep(40 * time.Millisecond)
			}
			func() {
				defer func() { recover() }()
				extra("CmdSync.GetDetailedInfo(while-restarting)", cmd.GetDetailedInfo())
				extra("metric.NewMetricRest(while-restarting)", metric.NewMetricRest())
			}()
		}
	case "restore":
		c := base
		c.Type = conf.TypeRestore
		c.HttpProfile = -1
		in := filepath.Join(scratch, "c19.rdb")
		ioutil.WriteFile(in, minimalRDB(rng, c19keys(rng)), 0644)
		_, tcp := newTarget()
		c.SourceRdbInput, c.TargetAddressList = []string{in}, []string{tcp.Addr}
		conf.Options = c
		(&run.CmdRestore{}).Main()
	case "rump":
		c := base
		c.Type = conf.TypeRump
		src := miniredis.NewServer()
		src.Password = a.SrcPw
		for _, k := range c19keys(rng) {
			src.Put(int(k.DB), string(k.Key), k.Val, 0)
		}
		stcp, _ := src.ListenTCP()
		_, tcp := newTarget()
		c.SourceAddressList, c.TargetAddressList = []string{stcp.Addr}, []string{tcp.Addr}
		conf.Options = c
		cmd := &run.CmdRump{}
		metric.CreateMetric(cmd)
		cmd.Main()
		extra("CmdRump.GetDetailedInfo", cmd.GetDetailedInfo())
	case "dump":
		c := base
		c.Type = conf.TypeDump
		src, _ := fakesource.New(fakesource.Script{RunID: e2eRunID, StartOffset: 1, RDB: minimalRDB(rng, c19keys(rng)), NLBetween: 2}, a.SrcPw)
		c.SourceAddressList, c.TargetRdbOutput = []string{src.Addr}, filepath.Join(scratch, "c19-dump")
		conf.Options = c
		(&run.CmdDump{}).Main()
	case "supervisor":
		conf.Options = base
		bad := &fakeNode{Script: []string{bErr}}
		bad.start()
		good := &fakeNode{Script: []string{bNoRole, bMaster}}
		good.start()
		in := slot.SyncNode{Id: 3, Source: bad.addr, SourcePassword: a.SrcPw, Target: []string{"127.0.0.1:1"}, TargetPassword: a.TgtPw, Slaves: []string{good.addr, "127.77.9.9:9"}, SlotLeftBoundary: 0, SlotRightBoundary: 100}
		nd, err := slotsupervisor.New(in).GetSlotState()
		log.Infof("supervisor result: %v err=%v", nd != nil, err)
	case "supervisor-retries-exhausted":
		// no node ever reports master: the discovery uses up its whole retry budget (about 21 s of back-off) and gives up
		conf.Options = base
		n1 := &fakeNode{Script: []string{bSlave}}
		n1.start()
		n2 := &fakeNode{Script: []string{bErr, bSlave, bNoRole}}
		n2.start()
		in := slot.SyncNode{Id: 4, Source: n1.addr, SourcePassword: a.SrcPw, Target: []string{"127.0.0.1:1"}, TargetPassword: a.TgtPw, Slaves: []string{n2.addr, "127.77.9.7:9"}, SlotLeftBoundary: 0, SlotRightBoundary: 16383}
		nd, err := slotsupervisor.New(in).GetSlotState()
		log.Infof("supervisor result: %v err=%v", nd != nil, err)
	case "sync-cluster-source", "sync-cluster-source-resume":
		// the use at sync start: DbSyncer.Sync() with source.type=cluster re-discovers the shard's master (the configured
		// source is a dead node, a known replica was promoted), runs full + incremental sync, loses the link and restarts
		c := base
		c.SourceType = conf.RedisTypeCluster
		c.ResumeFromBreakPoint = a.Scenario == "sync-cluster-source-resume" // the status document differs with resume on
		master, _ := fakesource.New(fakesource.Script{RunID: e2eRunID, StartOffset: 10, RDB: minimalRDB(rng, c19keys(rng)), ResumeMode: "refuse"}, a.SrcPw)
		dead := &fakeNode{Script: []string{bErr}}
		dead.start()
		other := &fakeNode{Script: []string{bSlave}}
		other.start()
		_, tcp := newTarget()
		c.SourceAddressList, c.TargetAddressList = []string{dead.addr}, []string{tcp.Addr}
		conf.Options = c
		node := &slot.SyncNode{Id: 7, Source: dead.addr, SourcePassword: a.SrcPw, Target: []string{tcp.Addr}, TargetPassword: a.TgtPw, SlotLeftBoundary: -1, SlotRightBoundary: -1, Slaves: []string{other.addr, master.Addr, "127.77.9.8:9"}}
		ds := dbSync.NewDbSyncer(node, 9320, semaphore.NewWeighted(2))
		go ds.Sync()
		master.Feed(stream[:len(stream)/2])
		time.Sleep(1500 * time.Millisecond)
		master.DropNow() // the resume is refused: the syncer reports the error and starts over (topology discovery included)
		for k := 0; k < 30; k++ {
			time.Sleep(100 * time.Millisecond)
			extra("DbSyncer.GetExtraInfo(while-restarting)", ds.GetExtraInfo())
		}
		extra("DbSyncer.GetExtraInfo", ds.GetExtraInfo())
	case "checkpoint-load":
		conf.Options = base
		srv, tcp := newTarget()
		h := &rdbgen.Value{Kind: "hash", Hash: [][2][]byte{{[]byte("1.2.3.4:6379-runid"), []byte("abc")}, {[]byte("1.2.3.4:6379-version"), []byte("0")}, {[]byte("1.2.3.4:6379-offset"), []byte("77")}}}
		srv.Put(0, ckptKey, h, 0)
		_, _, _, err := checkpoint.LoadCheckpoint(1, "1.2.3.4:6379", []string{tcp.Addr}, "auth", a.TgtPw, ckptKey, false, false)
		log.Warnf("checkpoint load finished: %v", err)
		_, _, _, err = checkpoint.LoadCheckpoint(1, "1.2.3.4:6379", []string{tcp.Addr}, "auth", "wrong-"+a.TgtPw[:4], ckptKey, false, false)
		log.Warnf("checkpoint load with a wrong password finished: %v", err)
	case "status-documents":
		conf.Options = base
		metric.CreateMetric(&run.CmdSync{}) // the documents can be asked for before the runner has created its syncers
		extra("conf.GetSafeOptions", conf.GetSafeOptions())
		extra("metric.NewMetricRest", metric.NewMetricRest())
		// the configuration document is served per HTTP request, and requests are served concurrently (next to the
		// start-up echo): every caller's copy must be masked, whoever else is asking at the same moment
		var wg sync.WaitGroup
		var leaked, calls int64
		for g := 0; g < 8; g++ {
			wg.Add(1)
			go func() {
				defer wg.Done()
				for k := 0; k < 2500 && atomic.LoadInt64(&leaked) == 0; k++ {
					doc := conf.GetSafeOptions()
					atomic.AddInt64(&calls, 1)
					if b, _ := json.Marshal(doc); (bytes.Contains(b, []byte(a.SrcPw)) || bytes.Contains(b, []byte(a.TgtPw))) && atomic.CompareAndSwapInt64(&leaked, 0, 1) {
						fmt.Fprintf(f, "@DOC conf.GetSafeOptions(8-concurrent-callers) json=%s\n", b)
					}
				}
			}()
		}
		wg.Wait()
		fmt.Fprintf(f, "@CONC concurrent GetSafeOptions calls rendered and scanned: %d\n", calls)
		// every DbSyncer prints its node descriptor when it starts and whenever it restarts, and the syncers of a
		// multi-source / cluster run do so at the same time: 8 of them, each with its own descriptor, through the logger
		var descLeaked, descs int64
		for g := 0; g < 8; g++ {
			wg.Add(1)
			go func(g int) {
				defer wg.Done()
				node := &slot.SyncNode{Id: g, Source: fmt.Sprintf("10.19.0.%d:6379", g), SourcePassword: a.SrcPw, Target: []string{"10.19.1.1:6379"}, TargetPassword: a.TgtPw,
					SlotLeftBoundary: g * 2048, SlotRightBoundary: g*2048 + 2047, Slaves: []string{fmt.Sprintf("10.19.2.%d:6379", g)}}
				// links without AUTH on one side exist too: the other side's password is still a secret
				switch g % 4 {
				case 1:
					node.SourcePassword = ""
				case 2:
					node.TargetPassword = ""
				}
				for k := 0; k < 2500 && atomic.LoadInt64(&descLeaked) == 0; k++ {
					var line string
					switch k % 3 {
					case 0:
						line = fmt.Sprintf("Starting sync for node: %v", node)
					case 1:
						line = fmt.Sprintf("%+v", *node)
					default:
						line = fmt.Sprintf("%s", node)
					}
					atomic.AddInt64(&descs, 1)
					if (strings.Contains(line, a.SrcPw) || strings.Contains(line, a.TgtPw)) && atomic.CompareAndSwapInt64(&descLeaked, 0, 1) {
						fmt.Fprintf(f, "@DOC SyncNode-descriptor(8-concurrent-syncers) fmt=%s\n", line)
					}
				}
			}(g)
		}
		wg.Wait()
		fmt.Fprintf(f, "@CONCDESC concurrent node descriptors rendered and scanned: %d\n", descs)
	}
	f.Sync()
	fmt.Println("@DONE")
}

var concDescRe = regexp.MustCompile(`@CONCDESC [^\n]*: (\d+)`)
var concCallsRe = regexp.MustCompile(`@CONC [^\n]*: (\d+)`)
var logCallRe = regexp.MustCompile(`\[(?:INFO|WARN|ERROR|DEBUG|PANIC)\][^\n]{0,160}`)

func c19(c *wk.Ctx) {
	r := c.R
	r.Rule = "every run path (sync start + full + incremental + source reconnect via CmdSync.Main, resume with checkpoint load, restart after a refused PSYNC until the retry budget ends the process, restore mode, rump, dump, shard supervisor with failing nodes and with a retry budget that runs out, DbSyncer.Sync() with source.type=cluster (topology re-discovery at every start and restart), checkpoint load incl. a wrong password, the status documents) x log levels {debug, info, warn, error} runs in a child whose log.StdLog is redirected into a file, with distinct sentinel passwords that the fake peers really require; every byte logged plus json/%v/%+v renderings of conf.GetSafeOptions(), metric.NewMetricRest() and GetDetailedInfo() is scanned for the sentinels; 8 concurrent callers of conf.GetSafeOptions() x 2500 calls and 8 syncers printing their own node descriptors x 2500 are rendered and scanned as well. distinct = (scenario, level)"
	srcPw := fmt.Sprintf("S3NT-src-%d", c.Seed)
	tgtPw := fmt.Sprintf("S3NT-tgt-%d", c.Seed)
	levels := []string{"debug", "info", "warn", "error"}
	type job struct{ sc, lv string }
	var jobs []job
	for _, sc := range c19scenarios {
		for _, lv := range levels {
			jobs = append(jobs, job{sc, lv})
		}
	}
	var totalBytes int64
	maskAll := func(s string) string {
		return strings.Replace(strings.Replace(s, srcPw, "<source-password>", -1), tgtPw, "<target-password>", -1)
	}
	results := make([]func(), len(jobs))
	wk.Parallel(len(jobs), 12, func(i int) {
		j := jobs[i]
		lf := filepath.Join(c.Scratch, fmt.Sprintf("c19-%d.log", i))
		cr := wk.RunChild(c, "c19scenario", c19arg{Scenario: j.sc, Level: j.lv, SrcPw: srcPw, TgtPw: tgtPw, LogFile: lf}, 90*time.Second)
		data, _ := ioutil.ReadFile(lf)
		if os.Getenv("VERIF_KEEP_C19") != "" && j.sc == "status-documents" {
			ioutil.WriteFile("/tmp/c19dbg-"+j.lv+".log", data, 0644)
		}
		os.Remove(lf)
		all := append(append(append([]byte{}, data...), cr.Stdout...), cr.Stderr...)
		results[i] = func() {
			totalBytes += int64(len(all))
			r.Case(j.sc + "|" + j.lv)
			r.Count("scenario_runs", 1)
			r.Count("scenario:"+j.sc, 1)
			r.Count("log_lines", int64(bytes.Count(data, []byte("\n"))))
			r.Count("status_documents_rendered", int64(bytes.Count(data, []byte("@DOC "))))
			for _, d := range []string{"metric.NewMetricRest", "GetDetailedInfo", "GetSafeOptions", "GetExtraInfo"} {
				r.Count("documents:"+d, int64(bytes.Count(data, []byte(d+" json="))+bytes.Count(data, []byte(d+"("))))
			}
			if m := concDescRe.FindSubmatch(data); m != nil {
				n, _ := strconv.ParseInt(string(m[1]), 10, 64)
				r.Count("concurrent_node_descriptors_scanned", n)
			}
			if m := concCallsRe.FindSubmatch(data); m != nil {
				n, _ := strconv.ParseInt(string(m[1]), 10, 64)
				r.Count("concurrent_configuration_documents_scanned", n)
			}
			if bytes.Contains(cr.Stderr, []byte("panic: runtime error")) || bytes.Contains(cr.Stderr, []byte("[signal SIG")) {
				// the tool ends scenarios through log.Panic (exit 1), never through a Go runtime fault: whatever was to be
				// rendered after this point was not scanned
				r.Inconcl(fmt.Sprintf("scenario %s/%s ended in a runtime fault before all documents were rendered: %s", j.sc, j.lv, firstPanicLine(cr.Stderr)))
			}
			if cr.TimedOut {
				r.Inconcl(fmt.Sprintf("scenario %s/%s hit the watchdog", j.sc, j.lv))
			}
			if len(data) == 0 && j.lv != "error" && j.lv != "warn" {
				r.Inconcl(fmt.Sprintf("scenario %s at level %s logged nothing: nothing to scan", j.sc, j.lv))
			}
			for _, pw := range []struct{ which, s string }{{"source", srcPw}, {"target", tgtPw}} {
				idx := bytes.Index(all, []byte(pw.s))
				if idx < 0 {
					continue
				}
				lo := bytes.LastIndexByte(all[:idx], '\n') + 1
				hi := idx + bytes.IndexByte(append(all[idx:], '\n'), '\n')
				line := string(all[lo:hi])
				where := "log-line"
				if strings.HasPrefix(line, "@DOC ") {
					where = "status-document:" + strings.Fields(line)[1]
				}
				msg := logCallRe.FindString(line)
				class := "other"
				switch {
				case strings.Contains(line, "Starting sync for node"):
					class = "sync-node-descriptor"
				case where != "log-line":
					class = where
				}
				r.Violationf(fmt.Sprintf("C19|password=%s|where=%s", pw.which, class), map[string]interface{}{"scenario": j.sc, "level": j.lv, "line": maskAll(line)},
					"the %s password appears in %s (scenario %s, level %s): %s", pw.which, where, j.sc, j.lv, maskAll(msg))
			}
		}
	})
	for _, f := range results {
		if f != nil {
			f()
		}
	}
	r.Count("bytes_scanned", totalBytes)
	r.Floor("scenario_runs", int64(len(jobs)))
	r.Floor("bytes_scanned", 20000)
	r.Floor("concurrent_configuration_documents_scanned", 40000)
	r.Floor("concurrent_node_descriptors_scanned", 40000)
	r.Floor("documents:metric.NewMetricRest", 8)
	r.Floor("documents:GetDetailedInfo", 8)
	r.Floor("documents:GetSafeOptions", 4)
	r.Sample(map[string]interface{}{"scenario": "sync-full-incr-reconnect", "level": "debug", "passwords": "distinct sentinels required by the fake master and the model target", "scanned": "log file + stdout/stderr + status documents"})
	r.Sample(map[string]interface{}{"scenario": "sync-psync-refused-restart", "level": "info", "note": "process ends by the tool's own retry budget; its log file is scanned afterwards"})
	r.Assume("the HTTP server and the startup echo live in redis-shake/main, which does not build; the expressions they serve (GetSafeOptions, NewMetricRest, GetDetailedInfo) are rendered and scanned instead")
}
