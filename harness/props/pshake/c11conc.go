package pshake

import (
	"bytes"
	"encoding/binary"
	"encoding/json"
	"fmt"
	"io"
	"sync"

	"github.com/alibaba/RedisShake/pkg/libs/log"
	"github.com/alibaba/RedisShake/pkg/rdb"

	"verif/harness/lib/prng"
	"verif/harness/lib/rdbgen"
	"verif/harness/lib/refcrc"
	"verif/harness/lib/wk"
)

// Concurrent stage of C11: the tool runs one loader per source (sync with several sources, restore/decode with
// several input files), so payload trailers and end-of-file checks are computed by several loaders at the same time.
// Each of K loaders parses its own generated file; every payload any of them emits must carry the Redis CRC-64 of
// its own bytes, verify under the tool's checkers, and every intact file must pass its end-of-file check.

func init() { wk.RegisterChild("c11conc", c11concChild) }

type c11concCase struct {
	Index   int `json:"index"`
	Loaders int `json:"concurrent_loaders"`
	Keys    int `json:"keys_per_file"`
}

func c11concChild(raw json.RawMessage, scratch string) {
	a := wk.ParseBatchArg(raw, nil)
	log.SetLevel(log.LEVEL_NONE)
	r := wk.ChildRes("C11")
	base := prng.New(a.Seed).Split(0x11CC)
	for idx := a.Start; idx < a.End; idx++ {
		rng := base.At(uint64(idx))
		cs := c11concCase{Index: idx, Loaders: rng.Pick(2, 4, 8, 16), Keys: rng.Pick(20, 100, 300)}
		wk.ChildCase(idx, cs)
		files := make([][]byte, cs.Loaders)
		bigFiles := int64(0)
		for k := range files {
			f := rdbgen.RandFile(rng, rdbgen.FileOpts{MaxKeys: cs.Keys, MaxElems: rng.Pick(3, 12, 40), Streams: true, Metadata: true, MultiDB: true, Expiry: true})
			if k == 0 && idx%4 == 1 {
				// one loader meets a hash above the 16 MiB chunk limit: every record the loader cuts it into is a payload of
				// its own, with its own trailer
				hv := &rdbgen.Value{Kind: "hash"}
				for q := 0; q < 70; q++ {
					val := bytes.Repeat([]byte{byte('a' + q%26)}, 600000)
					copy(val, fmt.Sprintf("v%d:", q))
					hv.Hash = append(hv.Hash, [2][]byte{[]byte(fmt.Sprintf("field-%d", q)), val})
				}
				f.Items = append(f.Items, rdbgen.Item{Key: &rdbgen.KeySpec{DB: 0, Key: []byte("big-hash"), Val: hv, Enc: "table"}})
				bigFiles++
			}
			files[k], _ = rdbgen.Build(rng, f, 0)
		}
		type bad struct{ what, sig string }
		var mu sync.Mutex
		var bads []bad
		var payloads, chunkRecs int64
		var wg sync.WaitGroup
		for k := range files {
			wg.Add(1)
			go func(k int) {
				defer wg.Done()
				fail := func(sig, format string, args ...interface{}) {
					mu.Lock()
					bads = append(bads, bad{fmt.Sprintf(format, args...), sig})
					mu.Unlock()
				}
				defer func() {
					if x := recover(); x != nil {
						fail("loader-panic", "loader %d of %d panicked on an intact file: %v", k, cs.Loaders, x)
					}
				}()
				var src io.Reader = bytes.NewReader(files[k])
				if k%2 == 1 {
					src = &splitReader{data: files[k], sizes: []int{1, 4096, 3, 100, 65536}} // a socket-like source
				}
				l := rdb.NewLoader(src)
				if err := l.Header(); err != nil {
					fail("intact-file-rejected", "loader %d: header of an intact file rejected: %v", k, err)
					return
				}
				n := 0
				for {
					e, err := l.NextBinEntry()
					if err != nil {
						fail("intact-file-rejected", "loader %d: entry %d of an intact file rejected: %v", k, n, err)
						return
					}
					if e == nil {
						break
					}
					n++
					if e.Type == rdb.RdbFlagAUX || len(e.Value) < 10 {
						continue // lua script bodies are not DUMP payloads
					}
					if string(e.Key) == "big-hash" {
						mu.Lock()
						chunkRecs++
						mu.Unlock()
					}
					p := e.Value
					want := refcrc.CRC64(0, p[:len(p)-8])
					if got := binary.LittleEndian.Uint64(p[len(p)-8:]); got != want {
						fail("payload-trailer-not-crc64-of-payload", "loader %d of %d concurrent loaders: payload of key %q (%d bytes) carries trailer %#x, Redis CRC-64 of its bytes is %#x", k, cs.Loaders, truncB(e.Key, 30), len(p), got, want)
						return
					}
					if rej, how := checkVCRejects(p); rej {
						fail("own-payload-rejected-by-CheckVersionChecksum", "loader %d: payload of key %q rejected by CheckVersionChecksum (%s)", k, truncB(e.Key, 30), how)
						return
					}
					mu.Lock()
					payloads++
					mu.Unlock()
				}
				if err := l.Footer(); err != nil {
					fail("intact-file-rejected", "loader %d of %d concurrent loaders: end-of-file check of an intact file failed: %v", k, cs.Loaders, err)
				}
			}(k)
		}
		wg.Wait()
		r.Case(fmt.Sprintf("concurrent|loaders%d|keys%d", cs.Loaders, cs.Keys))
		r.Count("concurrent_loader_groups", 1)
		r.Count("concurrent_payloads_checked", payloads)
		r.Count("chunk_record_payloads_checked", chunkRecs)
		r.Count("files_with_a_chunked_hash", bigFiles)
		r.Max("max_concurrent_loaders", int64(cs.Loaders))
		seen := map[string]bool{}
		for _, b := range bads {
			if !seen[b.sig] {
				seen[b.sig] = true
				r.Violation("C11|concurrent-loaders|outcome="+b.sig, b.what, cs)
			}
		}
		if idx == a.Start {
			r.Sample(cs)
		}
	}
	wk.ChildDone(r)
}
