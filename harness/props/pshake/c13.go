package pshake

import (
	"bytes"
	"encoding/json"
	"fmt"
	"sort"
	"strings"
	"time"

	conf "github.com/alibaba/RedisShake/redis-shake/configure"
	"github.com/alibaba/RedisShake/redis-shake/filter"

	"verif/harness/lib/reffilter"
	"verif/harness/lib/wk"
)

func init() { wk.Register("C13", c13) }

// shape of a command's argument list for generation
type cmdShape struct {
	lead     []string // leading non-key args
	minKeys  int
	maxKeys  int // 0 = use bound
	perKey   int // companions per key (mset: 1)
	trailMin int
	trailMax int
}

func shapeOf(cmd string) cmdShape {
	switch cmd {
	case "del", "unlink":
		return cmdShape{minKeys: 1}
	case "mset", "msetnx":
		return cmdShape{minKeys: 1, perKey: 1}
	case "blpop", "brpop":
		return cmdShape{minKeys: 1, trailMin: 1, trailMax: 1}
	case "sinterstore", "sunionstore", "sdiffstore", "pfmerge":
		return cmdShape{minKeys: 1}
	case "bitop":
		return cmdShape{lead: []string{"AND"}, minKeys: 2}
	case "rename", "renamenx", "rpoplpush":
		return cmdShape{minKeys: 2, maxKeys: 2}
	case "smove", "brpoplpush":
		return cmdShape{minKeys: 2, maxKeys: 2, trailMin: 1, trailMax: 1}
	case "incr", "decr", "persist", "rpop", "lpop":
		return cmdShape{minKeys: 1, maxKeys: 1}
	case "spop":
		return cmdShape{minKeys: 1, maxKeys: 1, trailMax: 1}
	}
	return cmdShape{minKeys: 1, maxKeys: 1, trailMin: 1, trailMax: 4}
}

func argvStr(a [][]byte) string {
	s := make([]string, len(a))
	for i := range a {
		s[i] = string(a[i])
	}
	return strings.Join(s, " ")
}

func eqArgv(a, b [][]byte) bool {
	if len(a) != len(b) {
		return false
	}
	for i := range a {
		if !bytes.Equal(a[i], b[i]) {
			return false
		}
	}
	return true
}

func c13(c *wk.Ctx) {
	r := c.R
	r.Rule = "every command of filter.RedisCommands x every arity up to a key bound x all 2^n pass/fail patterns x {whitelist, blacklist}; pass/fail controlled by key prefix only; " +
		"expected argv = literal statement over an independently typed Redis key-spec table. Stream stage: random draws of the same cases (<= 3 keys) in any letter case, interleaved with SELECT/PING/PUBLISH/commands outside the table (each also right after a dropped command), pushed through the real incremental parser and sender; the sequence of (database, command, argv) executed by the model target must equal the reference pipeline's. distinct = (command, arity, pattern, list kind) + (stream config, sender.count)"
	r.Exhaustive = true
	bound := c.N(4, 6)
	var cmds []string
	for k := range filter.RedisCommands {
		cmds = append(cmds, k)
	}
	sort.Strings(cmds)
	r.Count("commands_in_tool_table", int64(len(cmds)))
	for _, cmd := range cmds {
		if _, ok := reffilter.KeySpecs[cmd]; !ok {
			r.Inconcl("tool table has a command the reference table does not know: " + cmd)
		}
	}
	call := func(cmd string, args [][]byte) (out [][]byte, reject bool, panicked string) {
		defer func() {
			if x := recover(); x != nil {
				panicked = fmt.Sprint(x)
			}
		}()
		cp := make([][]byte, len(args))
		copy(cp, args)
		out, reject = filter.HandleFilterKeyWithCommand(cmd, cp)
		return
	}
	judge := func(cfgName string, ref *reffilter.Config, cmd string, args [][]byte, pattern string) {
		want, wantDrop := ref.Rewrite(cmd, args)
		got, reject, pan := call(cmd, args)
		r.Case(fmt.Sprintf("%s|%s|%d|%s", cfgName, cmd, len(args), pattern))
		rep := map[string]interface{}{"config": cfgName, "cmd": cmd, "args": argvStr(args), "want": argvStr(want), "want_dropped": wantDrop, "got": argvStr(got), "got_dropped": reject}
		sig := func(o string) string { return "C13|cmd=" + cmd + "|outcome=" + o }
		switch {
		case pan != "":
			r.Violationf(sig("panic"), rep, "%s %s under %s: panic %s", cmd, argvStr(args), cfgName, pan)
		case wantDrop && !reject:
			r.Violationf(sig("forwarded-though-no-key-passes"), rep, "%s %s under %s: no key passes but forwarded as [%s]", cmd, argvStr(args), cfgName, argvStr(got))
		case !wantDrop && reject:
			r.Violationf(sig("dropped-though-a-key-passes"), rep, "%s %s under %s: dropped, expected [%s]", cmd, argvStr(args), cfgName, argvStr(want))
		case !wantDrop && !eqArgv(got, want):
			o := "argv-differs"
			if eqArgv(want, args) {
				o = "changed-though-all-keys-pass"
			} else {
				// does got contain a key that must not pass?
				for _, g := range got {
					if bytes.HasPrefix(g, []byte("no:")) {
						o = "non-passing-key-forwarded"
					}
				}
				if o == "argv-differs" && len(got) < len(want) {
					o = "argument-lost"
				}
			}
			r.Violationf(sig(o), rep, "%s %s under %s: forwarded [%s], expected [%s]", cmd, argvStr(args), cfgName, argvStr(got), argvStr(want))
		}
	}
	cfgs := []struct {
		name string
		set  func()
		ref  *reffilter.Config
	}{
		{"whitelist", func() { conf.Options = conf.Configuration{FilterKeyWhitelist: []string{"ok:", "also-ok"}} }, &reffilter.Config{KeyWhite: []string{"ok:", "also-ok"}}},
		{"blacklist", func() { conf.Options = conf.Configuration{FilterKeyBlacklist: []string{"no:", "never"}} }, &reffilter.Config{KeyBlack: []string{"no:", "never"}}},
		// lists whose first prefixes are longer than the keys they are tried on (every prefix of a list gets its turn)
		{"whitelist-long-first", func() {
			conf.Options = conf.Configuration{FilterKeyWhitelist: []string{"also-ok-but-much-longer-than-any-key", "ok:k0-and-more", "ok:"}}
		}, &reffilter.Config{KeyWhite: []string{"also-ok-but-much-longer-than-any-key", "ok:k0-and-more", "ok:"}}},
		{"blacklist-long-first", func() {
			conf.Options = conf.Configuration{FilterKeyBlacklist: []string{"never-ever-and-longer-than-any-key", "no:k1-and-more", "no:"}}
		}, &reffilter.Config{KeyBlack: []string{"never-ever-and-longer-than-any-key", "no:k1-and-more", "no:"}}},
	}
	sampled := 0
	for _, cfg := range cfgs {
		cfg.set()
		for _, cmd := range cmds {
			sh := shapeOf(cmd)
			maxK := sh.maxKeys
			if maxK == 0 {
				maxK = bound
			}
			for nk := sh.minKeys; nk <= maxK; nk++ {
				for nt := sh.trailMin; nt <= sh.trailMax; nt++ {
					for pat := 0; pat < 1<<uint(nk); pat++ {
						var args [][]byte
						for _, l := range sh.lead {
							args = append(args, []byte(l))
						}
						ps := ""
						for k := 0; k < nk; k++ {
							pass := pat&(1<<uint(k)) != 0
							if pass {
								args = append(args, []byte(fmt.Sprintf("ok:k%d", k)))
								ps += "P"
							} else {
								args = append(args, []byte(fmt.Sprintf("no:k%d", k)))
								ps += "F"
							}
							for q := 0; q < sh.perKey; q++ {
								args = append(args, []byte(fmt.Sprintf("val%d.%d", k, q)))
							}
						}
						for t := 0; t < nt; t++ {
							args = append(args, []byte(fmt.Sprintf("opt%d", t)))
						}
						judge(cfg.name, cfg.ref, cmd, args, ps)
						if sampled < 3 && nk == 2 && pat == 1 {
							sampled++
							w, d := cfg.ref.Rewrite(cmd, args)
							g, rej, _ := call(cmd, args)
							r.Sample(map[string]interface{}{"config": cfg.name, "cmd": cmd, "args": argvStr(args), "expected": argvStr(w), "expected_dropped": d, "tool": argvStr(g), "tool_dropped": rej})
						}
					}
				}
			}
		}
		// keys that are byte for byte equal to a listed prefix (a prefix matches itself)
		for _, cmd := range cmds {
			sh := shapeOf(cmd)
			for _, exact := range []string{"ok:", "no:", "also-ok", "never"} {
				var args [][]byte
				for _, l := range sh.lead {
					args = append(args, []byte(l))
				}
				nk := sh.minKeys
				if nk < 2 && (sh.maxKeys == 0 || sh.maxKeys >= 2) {
					nk = 2
				}
				for k := 0; k < nk; k++ {
					key := exact
					if k == 1 {
						key = "ok:k1"
					}
					args = append(args, []byte(key))
					for q := 0; q < sh.perKey; q++ {
						args = append(args, []byte(fmt.Sprintf("val%d.%d", k, q)))
					}
				}
				for t := 0; t < sh.trailMin; t++ {
					args = append(args, []byte(fmt.Sprintf("opt%d", t)))
				}
				judge(cfg.name, cfg.ref, cmd, args, "key=prefix:"+exact)
			}
		}
		// very long variadic commands (a DEL / MSET of tens of thousands of keys): positions beyond 2^15 and 2^16
		for _, n := range []int{32767, 32768, 40000, 65535, 65536, 70001} {
			for _, cmd := range []string{"del", "mset"} {
				var args [][]byte
				for k := 0; len(args) < n; k++ {
					key := fmt.Sprintf("ok:k%d", k)
					if k%3 == 2 || k >= n/2-5 && k%2 == 1 {
						key = fmt.Sprintf("no:k%d", k)
					}
					args = append(args, []byte(key))
					if cmd == "mset" {
						args = append(args, []byte(fmt.Sprintf("v%d", k)))
					}
				}
				r.Count("very_long_commands", 1)
				wantArgs, wantDrop := cfg.ref.Rewrite(cmd, args)
				got, reject, pan := call(cmd, args)
				r.Case(fmt.Sprintf("%s|%s|huge%d", cfg.name, cmd, n))
				if pan != "" || reject != wantDrop || (!wantDrop && !eqArgv(got, wantArgs)) {
					d := 0
					for d < len(got) && d < len(wantArgs) && bytes.Equal(got[d], wantArgs[d]) {
						d++
					}
					r.Violationf("C13|cmd="+cmd+"|outcome=very-long-command-rewritten-wrongly", map[string]interface{}{"config": cfg.name, "cmd": cmd, "arguments": len(args)},
						"%s with %d arguments under %s: forwarded %d arguments (dropped=%v, panic=%q), expected %d (dropped=%v); first difference at argument %d", cmd, len(args), cfg.name, len(got), reject, pan, len(wantArgs), wantDrop, d)
				}
			}
		}
		// the tool's own checkpoint key never passes, even when whitelisted by prefix
		for _, cmd := range []string{"hset", "del", "unlink"} {
			args := [][]byte{[]byte("redis-shake-checkpoint"), []byte("f"), []byte("v")}
			if cmd != "hset" {
				args = [][]byte{[]byte("redis-shake-checkpoint-abcd"), []byte("ok:k1")}
			}
			judge(cfg.name, cfg.ref, cmd, args, "ckpt")
		}
		// commands outside the table and any letter case are forwarded unchanged
		for _, cmd := range []string{"xadd", "zunionstore", "flushall", "publish", "eval", "sort"} {
			args := [][]byte{[]byte("no:k0"), []byte("ok:k1"), []byte("x")}
			judge(cfg.name, cfg.ref, cmd, args, "outside-table")
		}
	}
	// no key filter configured: identical argv for every command
	conf.Options = conf.Configuration{}
	none := &reffilter.Config{}
	for _, cmd := range cmds {
		args := [][]byte{[]byte("no:k0"), []byte("ok:k1"), []byte("v"), []byte("w")}
		judge("nofilter", none, cmd, args, "any")
		// ... whatever the keys are called: the tool's own checkpoint names are ordinary keys when no key filter is configured
		judge("nofilter", none, cmd, [][]byte{[]byte("redis-shake-checkpoint"), []byte("ok:k1"), []byte("v"), []byte("w")}, "ckpt-name-first")
		judge("nofilter", none, cmd, [][]byte{[]byte("a"), []byte("redis-shake-checkpoint-abcd"), []byte("v"), []byte("w")}, "ckpt-name-second")
	}
	conf.Options = conf.Configuration{}
	// ---- stream stage (second observation point of the statement): child processes, real parser + sender
	onDeath := func(d wk.Death) {
		if d.Result.TimedOut {
			r.Inconcl("C13 stream child watchdog: " + wk.Tail(d.Result.Stderr, 300))
			return
		}
		r.Violationf("C13|stream|outcome=process-aborted", json.RawMessage(d.Desc), "incremental parser/sender ended the process (exit %d): %s", d.Result.Exit, firstPanicLine(d.Result.Stderr))
	}
	ns := c.N(18, 360)
	parts := 6
	wk.Parallel(parts, 6, func(p int) {
		wk.RunBatch(c, "c13stream", ns*p/parts, ns*(p+1)/parts, nil, 20*time.Minute, onDeath)
	})
	r.Floor("stream_stage_streams", 15)
	r.Floor("stream_stage_forwarded_commands", 1500)
	r.Floor("commands_in_tool_table", 60)
	r.Assume("reference key-spec table typed from the Redis command table (DESIGN.md §5/C13); values/options never carry a listed prefix")
}
