package pshake

import (
	"bufio"
	"bytes"
	"encoding/json"
	"fmt"
	"io"
	"sort"
	"strings"
	"sync"
	"sync/atomic"
	"time"

	"github.com/alibaba/RedisShake/pkg/libs/atomic2"
	"github.com/alibaba/RedisShake/pkg/libs/log"
	"github.com/alibaba/RedisShake/pkg/rdb"
	utils "github.com/alibaba/RedisShake/redis-shake/common"

	"verif/harness/lib/prng"
	"verif/harness/lib/rdbgen"
	"verif/harness/lib/refrdb"
	"verif/harness/lib/wk"
)

func init() {
	wk.Register("C01", c01)
	wk.RegisterChild("c01files", c01filesChild)
	wk.RegisterChild("c01big", c01bigChild)
}

// oddReader hands out the stream in 1..7 byte pieces (buffering independence).
type oddReader struct {
	p       []byte
	rng     *prng.R
	one     bool
	eofLast bool // the final piece is returned together with io.EOF (legal for an io.Reader)
}

func (o *oddReader) Read(b []byte) (int, error) {
	if len(o.p) == 0 {
		return 0, io.EOF
	}
	n := 1
	if !o.one {
		n = o.rng.Range(1, 7)
	}
	if n > len(b) {
		n = len(b)
	}
	if n > len(o.p) {
		n = len(o.p)
	}
	copy(b, o.p[:n])
	o.p = o.p[n:]
	if len(o.p) == 0 && o.eofLast {
		return n, io.EOF
	}
	return n, nil
}

type c01desc struct {
	Index    int      `json:"index"`
	Version  int      `json:"rdb_version"`
	Keys     int      `json:"keys"`
	Bytes    int      `json:"file_bytes"`
	Items    []string `json:"items"` // compact description in file order
	WideLens int      `json:"wide_lens"`
	FileHex  string   `json:"file_hex,omitempty"`
}

func describeFile(f *rdbgen.File, recs []rdbgen.Record) []string {
	var out []string
	ri := 0
	for _, it := range f.Items {
		if it.Meta != nil {
			s := it.Meta.Kind
			if it.Meta.Kind == "modaux" {
				ops := []string{}
				for _, m := range it.Meta.Mod {
					ops = append(ops, []string{"", "sint", "uint", "float", "double", "string"}[m.Op])
				}
				s += ":" + strings.Join(ops, ",")
			}
			if it.Meta.Kind == "lua" {
				ri++
			}
			out = append(out, s)
			continue
		}
		lab := "?"
		if ri < len(recs) {
			lab = recs[ri].Encoding
		}
		ri++
		k := it.Key
		s := fmt.Sprintf("db%d %s n=%d", k.DB, lab, k.Val.Elements())
		if k.ExpireMs != 0 {
			if k.ExpireS {
				s += " exp-s"
			} else {
				s += " exp-ms"
			}
		}
		if k.HasIdle {
			s += " idle"
		}
		if k.HasFreq {
			s += " freq"
		}
		out = append(out, s)
	}
	return out
}

func prevKind(desc []string, recIdx int) string {
	// description of the item directly before record #recIdx (records = keys + lua items)
	n := -1
	for i, d := range desc {
		if strings.HasPrefix(d, "db") || d == "lua" {
			n++
			if n == recIdx {
				if i == 0 {
					return "start"
				}
				p := desc[i-1]
				if strings.HasPrefix(p, "db") {
					return "key"
				}
				if strings.HasPrefix(p, "modaux:") {
					ops := strings.Split(strings.TrimPrefix(p, "modaux:"), ",")
					sort.Strings(ops)
					u := []string{}
					for _, o := range ops {
						if len(u) == 0 || u[len(u)-1] != o {
							u = append(u, o)
						}
					}
					return "modaux:" + strings.Join(u, "+")
				}
				return p
			}
		}
	}
	return "end"
}

// checkLoader runs Header/NextBinEntry*/Footer on data and compares with recs. Returns "" or (sig, what).
func checkLoader(rd io.Reader, recs []rdbgen.Record, desc []string) (sig, what string) {
	defer func() {
		if x := recover(); x != nil {
			sig, what = "C01|loader|outcome=panic", fmt.Sprintf("loader panicked: %v", x)
		}
	}()
	l := rdb.NewLoader(rd)
	if err := l.Header(); err != nil {
		return "C01|loader|outcome=header-rejected", "Header() failed on a well-formed file: " + err.Error()
	}
	for i := 0; ; i++ {
		e, err := l.NextBinEntry()
		where := func() string {
			enc := "end"
			if i < len(recs) {
				enc = recs[i].Encoding
				if recs[i].IsScript {
					enc = "lua"
				}
			}
			return "enc=" + encClass(enc) + "|prev=" + prevKind(desc, i)
		}
		if err != nil {
			return "C01|loader|outcome=error|" + where(), fmt.Sprintf("NextBinEntry #%d failed: %v", i, err)
		}
		if e == nil {
			if i != len(recs) {
				return "C01|loader|outcome=records-missing|" + where(), fmt.Sprintf("parser stopped after %d records, file has %d", i, len(recs))
			}
			break
		}
		if i >= len(recs) {
			return "C01|loader|outcome=extra-record", fmt.Sprintf("parser delivered an extra record #%d key=%q type=%d", i, e.Key, e.Type)
		}
		x := recs[i]
		if x.IsScript {
			if e.Type != rdb.RdbFlagAUX || string(e.Key) != "lua" || !bytes.Equal(e.Value, x.Script) {
				return "C01|loader|outcome=script-record-wrong|" + where(), fmt.Sprintf("record #%d should be the lua script %q, got type=%#x key=%q value=%q", i, x.Script, e.Type, e.Key, truncB(e.Value, 80))
			}
			if e.DB != x.DB {
				return "C01|loader|outcome=script-db-wrong", fmt.Sprintf("lua script record has db %d, current db is %d", e.DB, x.DB)
			}
			continue
		}
		field := ""
		switch {
		case e.DB != x.DB:
			field = fmt.Sprintf("db=%d want %d", e.DB, x.DB)
		case !bytes.Equal(e.Key, x.Key):
			field = fmt.Sprintf("key=%q want %q", truncB(e.Key, 60), truncB(x.Key, 60))
		case e.Type != x.Type:
			field = fmt.Sprintf("type=%d want %d", e.Type, x.Type)
		case e.ExpireAt != x.ExpireAt:
			field = fmt.Sprintf("expireat=%d want %d", e.ExpireAt, x.ExpireAt)
		case e.IdleTime != x.Idle:
			field = fmt.Sprintf("idle=%d want %d", e.IdleTime, x.Idle)
		case e.Freq != x.Freq:
			field = fmt.Sprintf("freq=%d want %d", e.Freq, x.Freq)
		case e.RealMemberCount != 0 || e.NeedReadLen != 1:
			field = fmt.Sprintf("chunk markers set on an unchunked key (RealMemberCount=%d NeedReadLen=%d)", e.RealMemberCount, e.NeedReadLen)
		}
		if field == "" {
			want := rdbgen.DumpPayload(x.Type, x.ValueBytes, uint16(rdb.ToVersion))
			if !bytes.Equal(e.Value, want) {
				field = fmt.Sprintf("value payload differs (len %d want %d): not type ‖ serialized value ‖ version ‖ crc64", len(e.Value), len(want))
			}
		}
		if field != "" {
			name := strings.SplitN(field, "=", 2)[0]
			if strings.HasPrefix(field, "value") {
				name = "value"
			} else if strings.HasPrefix(field, "chunk") {
				name = "chunk-markers"
			}
			return "C01|loader|outcome=field-wrong:" + name + "|" + where(), fmt.Sprintf("record #%d (%s): %s", i, x.Encoding, field)
		}
	}
	if err := l.Footer(); err != nil {
		return "C01|loader|outcome=footer-rejected", "Footer() failed on a well-formed file: " + err.Error()
	}
	return "", ""
}

// compareHeld compares a complete list of delivered records with the generator's expectation (all fields, byte-exact
// payloads). Empty string = equal.
func compareHeld(got []*rdb.BinEntry, recs []rdbgen.Record) string {
	if len(got) != len(recs) {
		return fmt.Sprintf("%d records delivered, file has %d", len(got), len(recs))
	}
	for n, e := range got {
		x := recs[n]
		if x.IsScript {
			if e.Type != rdb.RdbFlagAUX || string(e.Key) != "lua" || !bytes.Equal(e.Value, x.Script) {
				return fmt.Sprintf("record #%d should be the lua script %q, got type=%#x key=%q value=%q", n, truncB(x.Script, 60), e.Type, truncB(e.Key, 40), truncB(e.Value, 60))
			}
			continue
		}
		if !bytes.Equal(e.Key, x.Key) || e.DB != x.DB || e.Type != x.Type || e.ExpireAt != x.ExpireAt {
			return fmt.Sprintf("record #%d is db=%d key=%q type=%d expireat=%d, file has db=%d key=%q type=%d expireat=%d", n, e.DB, truncB(e.Key, 40), e.Type, e.ExpireAt, x.DB, truncB(x.Key, 40), x.Type, x.ExpireAt)
		}
		if want := rdbgen.DumpPayload(x.Type, x.ValueBytes, uint16(rdb.ToVersion)); !bytes.Equal(e.Value, want) {
			return fmt.Sprintf("record #%d (%s, key %q): value payload differs from type ‖ serialized value ‖ version ‖ crc64 of the file's bytes (len %d want %d)", n, x.Encoding, truncB(e.Key, 40), len(e.Value), len(want))
		}
	}
	return ""
}

func encClass(e string) string {
	// strip the quicklist node count
	if strings.HasPrefix(e, "list/quicklist") {
		return "list/quicklist"
	}
	return e
}

func truncB(b []byte, n int) []byte {
	if len(b) > n {
		return b[:n]
	}
	return b
}

func c01filesChild(raw json.RawMessage, scratch string) {
	a := wk.ParseBatchArg(raw, nil)
	log.SetLevel(log.LEVEL_ERROR)
	r := wk.ChildRes("C01")
	base := prng.New(a.Seed).Split(0xC01)
	for i := a.Start; i < a.End; i++ {
		rng := base.At(uint64(i))
		o := rdbgen.FileOpts{MaxKeys: rng.Pick(1, 3, 8, 40), MaxElems: rng.Pick(3, 20, 70, 130), Streams: true, Metadata: rng.Chance(3, 4), MultiDB: rng.Chance(2, 3), Expiry: true}
		wide := rng.Pick(0, 0, 2, 6)
		f := rdbgen.RandFile(rng, o)
		data, recs := rdbgen.Build(rng, f, wide)
		desc := describeFile(f, recs)
		d := c01desc{Index: i, Version: f.Version, Keys: len(recs), Bytes: len(data), Items: desc, WideLens: wide}
		if len(data) <= 3000 {
			d.FileHex = fmt.Sprintf("%x", data)
		}
		wk.ChildCase(i, d)
		// path A: direct loader, sometimes through a dribbling reader
		var rd io.Reader = bytes.NewReader(data)
		mode := "plain"
		if i%10 == 3 && len(data) < 200000 {
			rd = bufio.NewReaderSize(&oddReader{p: data, rng: rng.Split(5), one: i%20 == 3}, 16)
			mode = "dribble"
		} else if i%10 == 7 && len(data) < 200000 {
			rd = &oddReader{p: data, rng: rng.Split(5), eofLast: true} // unbuffered short reads, last bytes arrive with io.EOF
			mode = "short+eof"
		}
		if sig, what := checkLoader(rd, recs, desc); sig != "" {
			r.Violation(sig, what, d)
			r.Case("failed")
			continue // the channel path would abort the process on the same file
		}
		// path B: the channel used by full sync / restore / decode
		var rbytes atomic2.Int64
		ch := utils.NewRDBLoader(bufio.NewReaderSize(bytes.NewReader(data), 4096), &rbytes, rng.Pick(1, 4, 1024))
		// every record is kept until the channel is closed and compared afterwards, the way the tool's consumers see
		// them: an entry taken off the channel is still in use while the loader parses the following ones
		var heldB []*rdb.BinEntry
		for e := range ch {
			heldB = append(heldB, e)
		}
		if what := compareHeld(heldB, recs); what != "" {
			r.Violationf("C01|channel|outcome=record-differs", d, "NewRDBLoader channel (records compared after the channel closed): %s", what)
		}
		if rbytes.Get() != int64(len(data)) {
			r.Violationf("C01|channel|outcome=bytes-read-differs", d, "NewRDBLoader consumed %d bytes of a %d byte file", rbytes.Get(), len(data))
		}
		// path C: several sources are loaded at the same time (one loader per source / input file)
		if i%8 == 5 {
			k := rng.Pick(2, 3, 6)
			files := make([][]byte, k)
			exp := make([][]rdbgen.Record, k)
			files[0], exp[0] = data, recs
			for q := 1; q < k; q++ {
				fq := rdbgen.RandFile(rng, rdbgen.FileOpts{MaxKeys: 40, MaxElems: 30, Streams: true, Metadata: true, MultiDB: true, Expiry: true})
				files[q], exp[q] = rdbgen.Build(rng, fq, 0)
			}
			whats := make([]string, k)
			var wg sync.WaitGroup
			for q := 0; q < k; q++ {
				wg.Add(1)
				go func(q int) {
					defer wg.Done()
					var rb atomic2.Int64
					var src io.Reader = bytes.NewReader(files[q])
					if q%2 == 1 {
						src = &oddReader{p: files[q], rng: prng.New(uint64(i*16 + q))}
					}
					var got []*rdb.BinEntry
					for e := range utils.NewRDBLoader(bufio.NewReaderSize(src, 4096), &rb, 64) {
						got = append(got, e)
					}
					whats[q] = compareHeld(got, exp[q])
				}(q)
			}
			wg.Wait()
			r.Count("concurrent_loader_groups", 1)
			for q, w := range whats {
				if w != "" {
					r.Violationf("C01|concurrent-loaders|outcome=record-differs", d, "loader %d of %d running at the same time: %s", q, k, w)
					break
				}
			}
		}
		// evidence
		encs := map[string]bool{}
		for _, x := range recs {
			encs[encClass(x.Encoding)] = true
			r.Count("records", 1)
			r.Count("enc:"+encClass(x.Encoding), 1)
			if len(x.Key) >= 260 && !x.IsScript {
				r.Count("keys_of_260B_or_more", 1)
			}
			if x.IsScript && len(x.Script) >= 260 {
				r.Count("scripts_of_260B_or_more", 1)
			}
		}
		metas := map[string]bool{}
		for _, it := range f.Items {
			if it.Meta != nil {
				metas[it.Meta.Kind] = true
				r.Count("meta:"+it.Meta.Kind, 1)
			}
		}
		r.Case(fmt.Sprintf("v%d|%s|%v|%v|w%d", f.Version, mode, keysOf(encs), keysOf(metas), wide))
		if i == a.Start {
			r.Sample(d)
		}
	}
	r.Count("lzf_backrefs_beyond_256", atomic.LoadInt64(&rdbgen.FarRefs))
	r.Count("lzf_backrefs_beyond_4096", atomic.LoadInt64(&rdbgen.VeryFarRefs))
	wk.ChildDone(r)
}

func keysOf(m map[string]bool) []string {
	var s []string
	for k := range m {
		s = append(s, k)
	}
	sort.Strings(s)
	return s
}

// ---- hashes beyond the 16 MiB chunk limit

type bigDesc struct {
	Index     int    `json:"index"`
	Fields    int    `json:"fields"`
	ValueSize int    `json:"value_size"`
	Expiry    bool   `json:"expiry"`
	Idle      bool   `json:"idle"`
	Trailing  int    `json:"keys_after"`
	Note      string `json:"note"`
}

func c01bigChild(raw json.RawMessage, scratch string) {
	a := wk.ParseBatchArg(raw, nil)
	log.SetLevel(log.LEVEL_ERROR)
	r := wk.ChildRes("C01")
	base := prng.New(a.Seed).Split(0xB01)
	for i := a.Start; i < a.End; i++ {
		rng := base.At(uint64(i))
		shape := [][2]int{{40, 1 << 20}, {70, 600000}, {300, 170000}}[rng.Intn(3)]
		d := bigDesc{Index: i, Fields: shape[0], ValueSize: shape[1], Expiry: i%2 == 0, Idle: i%3 == 0, Trailing: rng.Range(1, 4),
			Note: "hash above the 16 MiB chunk limit, followed by more keys and a second database"}
		if i%4 == 3 {
			d.Fields, d.ValueSize, d.Note = 3, 40<<20/3, "40 MiB in three pairs (each pair alone exceeds... no chunk boundary inside a pair)"
		}
		wk.ChildCase(i, d)
		f := &rdbgen.File{Version: 9}
		hv := &rdbgen.Value{Kind: "hash"}
		for k := 0; k < d.Fields; k++ {
			val := bytes.Repeat([]byte{byte('a' + k%26)}, d.ValueSize)
			copy(val, fmt.Sprintf("v%d:", k))
			hv.Hash = append(hv.Hash, [2][]byte{[]byte(fmt.Sprintf("field-%d", k)), val})
		}
		f.Items = append(f.Items, rdbgen.Item{Key: &rdbgen.KeySpec{DB: 0, Key: []byte("small-before"), Val: rdbgen.RandValue(rng, "list", 3), Enc: "linked"}})
		big := &rdbgen.KeySpec{DB: 0, Key: []byte("big-hash"), Val: hv, Enc: "table"}
		if d.Expiry {
			big.ExpireMs = 1900000000123
		}
		if d.Idle {
			big.HasIdle, big.Idle = true, 777
		}
		f.Items = append(f.Items, rdbgen.Item{Key: big})
		for k := 0; k < d.Trailing; k++ {
			kind := rdbgen.Kinds[rng.Intn(5)]
			v := rdbgen.RandValue(rng, kind, 5)
			encs := rdbgen.EncodingsFor(v)
			f.Items = append(f.Items, rdbgen.Item{Key: &rdbgen.KeySpec{DB: uint32(k % 2 * 3), Key: []byte(fmt.Sprintf("after-%d", k)), Val: v, Enc: encs[rng.Intn(len(encs))], ExpireMs: uint64(k) * 1600000000000}})
		}
		data, recs := rdbgen.Build(rng, f, 0)
		sig, what := checkBig(data, recs, hv)
		if sig != "" {
			r.Violation(sig, what, d)
		}
		r.Count("big_hash_files", 1)
		r.Count("big_hash_bytes", int64(len(data)))
		r.Case(fmt.Sprintf("big|%d|%d|%v|%v", d.Fields, d.ValueSize, d.Expiry, d.Idle))
		if i == a.Start {
			r.Sample(d)
		}
	}
	wk.ChildDone(r)
}

func checkBig(data []byte, recs []rdbgen.Record, hv *rdbgen.Value) (sig, what string) {
	defer func() {
		if x := recover(); x != nil {
			sig, what = "C01|bighash|outcome=panic", fmt.Sprintf("loader panicked: %v", x)
		}
	}()
	l := rdb.NewLoader(bytes.NewReader(data))
	if err := l.Header(); err != nil {
		return "C01|bighash|outcome=header-rejected", err.Error()
	}
	ri := 0
	chunks := 0
	for {
		e, err := l.NextBinEntry()
		if err != nil {
			return "C01|bighash|outcome=error", fmt.Sprintf("NextBinEntry failed at record %d: %v", ri, err)
		}
		if e == nil {
			break
		}
		if ri >= len(recs) {
			return "C01|bighash|outcome=extra-record", "extra record after the last key"
		}
		x := recs[ri]
		if string(x.Key) != "big-hash" {
			if e.DB != x.DB || !bytes.Equal(e.Key, x.Key) || e.Type != x.Type || e.ExpireAt != x.ExpireAt ||
				!bytes.Equal(e.Value, rdbgen.DumpPayload(x.Type, x.ValueBytes, uint16(rdb.ToVersion))) {
				return "C01|bighash|outcome=neighbour-record-wrong", fmt.Sprintf("record %q next to the chunked hash is wrong (db=%d type=%d expire=%d)", x.Key, e.DB, e.Type, e.ExpireAt)
			}
			ri++
			continue
		}
		// collect consecutive chunks of the big hash
		var pairs [][2][]byte
		first := true
		for {
			if e.DB != x.DB || !bytes.Equal(e.Key, x.Key) || e.Type != rdb.RdbTypeHash {
				return "C01|bighash|outcome=chunk-identity-wrong", fmt.Sprintf("chunk %d has db=%d key=%q type=%d", chunks, e.DB, e.Key, e.Type)
			}
			if e.ExpireAt != x.ExpireAt || e.IdleTime != x.Idle || e.Freq != x.Freq {
				which := "first"
				if !first {
					which = "continuation"
				}
				return "C01|bighash|outcome=chunk-lacks-expiry-or-hints|chunk=" + which, fmt.Sprintf("chunk %d (%s) carries expireat=%d idle=%d freq=%d, the key has %d/%d/%d", chunks, which, e.ExpireAt, e.IdleTime, e.Freq, x.ExpireAt, x.Idle, x.Freq)
			}
			if (e.NeedReadLen == 1) != first {
				return "C01|bighash|outcome=needreadlen-wrong", fmt.Sprintf("chunk %d NeedReadLen=%d", chunks, e.NeedReadLen)
			}
			// verify trailer and parse the pairs of this chunk with the reference primitives
			if len(e.Value) < 11 {
				return "C01|bighash|outcome=chunk-too-short", "chunk value too short"
			}
			body := e.Value[:len(e.Value)-10]
			want := rdbgen.DumpPayload(e.Value[0], body[1:], uint16(rdb.ToVersion))
			if !bytes.Equal(want, e.Value) || e.Value[0] != rdb.RdbTypeHash {
				return "C01|bighash|outcome=chunk-trailer-invalid", fmt.Sprintf("chunk %d is not type ‖ bytes ‖ version ‖ crc64", chunks)
			}
			ps, lastChunk, err := parseChunk(body[1:], first, int(e.RealMemberCount))
			if err != nil {
				return "C01|bighash|outcome=chunk-unparseable", fmt.Sprintf("chunk %d: %v", chunks, err)
			}
			pairs = append(pairs, ps...)
			chunks++
			first = false
			_ = lastChunk
			if len(pairs) >= len(hv.Hash) {
				break
			}
			e, err = l.NextBinEntry()
			if err != nil || e == nil {
				return "C01|bighash|outcome=chunks-missing", fmt.Sprintf("hash delivered %d of %d pairs in %d chunks, then err=%v", len(pairs), len(hv.Hash), chunks, err)
			}
		}
		got := &rdbgen.Value{Kind: "hash", Hash: pairs}
		if len(pairs) != len(hv.Hash) || !refrdb.Equal(got, hv) {
			return "C01|bighash|outcome=pairs-differ", fmt.Sprintf("concatenated chunks hold %d pairs, hash has %d (or contents differ)", len(pairs), len(hv.Hash))
		}
		for k := range pairs {
			if !bytes.Equal(pairs[k][0], hv.Hash[k][0]) {
				return "C01|bighash|outcome=pair-order-differs", "pairs are not in file order"
			}
		}
		if chunks < 2 {
			return "C01|bighash|outcome=not-chunked", "a hash above 16 MiB was delivered in one record (chunk limit not exercised)"
		}
		ri++
	}
	if ri != len(recs) {
		return "C01|bighash|outcome=records-missing", fmt.Sprintf("%d of %d keys delivered", ri, len(recs))
	}
	if err := l.Footer(); err != nil {
		return "C01|bighash|outcome=footer-rejected", err.Error()
	}
	return "", ""
}

// parseChunk reads the field/value pairs of one chunk: the first chunk starts with the total length.
func parseChunk(b []byte, first bool, realCount int) ([][2][]byte, bool, error) {
	pos := 0
	if first {
		// skip the hash length (any length form)
		_, n, err := refLen(b)
		if err != nil {
			return nil, false, err
		}
		pos = n
	}
	var out [][2][]byte
	for pos < len(b) {
		var kv [2][]byte
		for j := 0; j < 2; j++ {
			v, n, err := refrdb.DecodeValue(rdbgen.TString, b[pos:])
			if err != nil {
				return nil, false, err
			}
			kv[j] = v.Str
			pos += n
		}
		out = append(out, kv)
	}
	if realCount != 0 && realCount != len(out) {
		return nil, false, fmt.Errorf("RealMemberCount=%d but the chunk holds %d pairs", realCount, len(out))
	}
	return out, realCount == 0, nil
}

func refLen(b []byte) (uint64, int, error) {
	if len(b) == 0 {
		return 0, 0, io.ErrUnexpectedEOF
	}
	switch b[0] >> 6 {
	case 0:
		return uint64(b[0] & 0x3f), 1, nil
	case 1:
		if len(b) < 2 {
			return 0, 0, io.ErrUnexpectedEOF
		}
		return uint64(b[0]&0x3f)<<8 | uint64(b[1]), 2, nil
	}
	if b[0] == 0x80 && len(b) >= 5 {
		return uint64(b[1])<<24 | uint64(b[2])<<16 | uint64(b[3])<<8 | uint64(b[4]), 5, nil
	}
	return 0, 0, fmt.Errorf("unexpected length byte %#x", b[0])
}

func c01(c *wk.Ctx) {
	r := c.R
	r.Rule = "RDB files generated by construction (lib/rdbgen: every value type and physical encoding incl. every ziplist entry encoding, intset widths, zipmap, quicklist, LZF, int strings, streams with groups/PEL/consumers; every length form; versions 1-9; s/ms expiry, idle, freq; aux, lua, resize-db, module-aux with every sub-opcode between keys; alternating SELECTDB) parsed by the real loader directly (sometimes through a 1..7-byte dribbling reader) and through utils.NewRDBLoader; record-by-record comparison with the generator's expected records and exact payload bytes; plus hashes above the 16 MiB chunk limit. " +
		"distinct = (version, reader mode, set of encodings, set of metadata kinds, length-form mix)"
	if msg := refrdb.SelfTest(c.Seed, 300); msg != "" {
		r.Inconcl("harness self-test failed (rdbgen/refrdb disagree): " + msg)
		return
	}
	onDeath := func(kind string) func(d wk.Death) {
		return func(d wk.Death) {
			if d.Result.TimedOut {
				r.Inconcl("C01 " + kind + " child watchdog: " + wk.Tail(d.Result.Stderr, 300))
				return
			}
			why := "exit"
			if bytes.Contains(d.Result.Stderr, []byte("[PANIC]")) {
				why = "log-panic"
			} else if bytes.Contains(d.Result.Stderr, []byte("out of memory")) || bytes.Contains(d.Result.Stderr, []byte("makeslice")) {
				why = "huge-allocation"
			}
			r.Violationf("C01|"+kind+"|outcome=process-aborted:"+why, json.RawMessage(d.Desc), "parsing a well-formed RDB aborted the process (exit %d): %s", d.Result.Exit, firstPanicLine(d.Result.Stderr))
		}
	}
	if c.Replay != "" {
		idx, _, _ := wk.ReplayIndex(c.Replay)
		child := "c01files"
		if idx < 100 {
			if _, raw, _ := wk.ReplayIndex(c.Replay); bytes.Contains(raw, []byte("value_size")) {
				child = "c01big"
			}
		}
		wk.ReplayOne(c, child, nil, onDeath(child))
		return
	}
	n := c.N(3000, 240000)
	nbig := c.N(2, 8)
	type job struct {
		name       string
		start, end int
	}
	var jobs []job
	parts := 12
	for p := 0; p < parts; p++ {
		jobs = append(jobs, job{"c01files", n * p / parts, n * (p + 1) / parts})
	}
	for p := 0; p < nbig; p++ {
		jobs = append(jobs, job{"c01big", p, p + 1})
	}
	wk.Parallel(len(jobs), 14, func(i int) {
		j := jobs[i]
		wk.RunBatch(c, j.name, j.start, j.end, nil, 30*time.Minute, onDeath(j.name))
	})
	r.Floor("records", 5000)
	r.Floor("big_hash_files", 1)
	r.Floor("concurrent_loader_groups", 100)
	r.Floor("keys_of_260B_or_more", 30)
	r.Floor("scripts_of_260B_or_more", 30)
	r.Floor("lzf_backrefs_beyond_256", 300)
	r.Floor("lzf_backrefs_beyond_4096", 100)
	for _, e := range []string{"string/raw", "string/int", "string/lzf", "list/linked", "list/ziplist", "list/quicklist", "set/table", "set/intset16", "set/intset32", "set/intset64", "zset/text", "zset/binary", "zset/ziplist", "hash/table", "hash/zipmap", "hash/ziplist", "stream"} {
		r.Floor("enc:"+e, 20)
	}
	for _, m := range []string{"aux", "lua", "resize", "modaux", "selectdb"} {
		r.Floor("meta:"+m, 20)
	}
	r.Assume("generator and its expectations come from one walk (lib/rdbgen); rdbgen is self-tested against the independent decoder lib/refrdb on every run")
	r.Assume("files carry an 8-byte CRC-64 trailer for every header version (the statement asks for a verifying end-of-file checksum); zipmap item lengths stay below 253 (Redis' source and its documentation disagree about the 253/254 marker; cannot be settled offline)")
}

func firstPanicLine(stderr []byte) string {
	for _, l := range bytes.Split(stderr, []byte("\n")) {
		if bytes.Contains(l, []byte("[PANIC]")) || bytes.HasPrefix(l, []byte("panic:")) || bytes.HasPrefix(l, []byte("fatal error:")) {
			// ... with the innermost source position of the panicking goroutine, so that a fault of the harness itself
			// cannot be mistaken for one of the code under test
			at := ""
			if rest := stderr[bytes.Index(stderr, l):]; true {
				for _, fl := range bytes.Split(rest, []byte("\n")) {
					fl = bytes.TrimSpace(fl)
					if bytes.Contains(fl, []byte(".go:")) && !bytes.Contains(fl, []byte("/usr/lib/go")) {
						at = " at " + string(truncB(fl, 160))
						break
					}
				}
			}
			return string(truncB(l, 400)) + at
		}
	}
	return wk.Tail(stderr, 300)
}
