package pshake

import (
	"bufio"
	"bytes"
	"encoding/json"
	"fmt"
	"io/ioutil"
	"os"
	"path/filepath"
	"sort"
	"strconv"
	"strings"
	"sync"
	"time"

	"golang.org/x/sync/semaphore"

	"github.com/alibaba/RedisShake/pkg/libs/log"
	run "github.com/alibaba/RedisShake/redis-shake"
	conf "github.com/alibaba/RedisShake/redis-shake/configure"
	"github.com/alibaba/RedisShake/redis-shake/dbSync"
	"github.com/alibaba/RedisShake/redis-shake/dbSync/slot"

	"verif/harness/lib/miniredis"
	"verif/harness/lib/prng"
	"verif/harness/lib/rdbgen"
	"verif/harness/lib/refcrc"
	"verif/harness/lib/reffilter"
	"verif/harness/lib/refrdb"
	"verif/harness/lib/wk"
)

func init() {
	wk.Register("C07", c07)
	wk.RegisterChild("c07runs", c07runsChild)
}

type c07case struct {
	Index    int      `json:"index"`
	Mode     string   `json:"mode"` // sync | restore
	Keys     int      `json:"keys"`
	DBs      []int    `json:"dbs"`
	Parallel int      `json:"parallel"`
	TargetDB int      `json:"target_db"`
	Policy   string   `json:"scheduler"`
	Filter   string   `json:"filter"`
	Scripts  int      `json:"lua_scripts"`
	Fail     string   `json:"injected_failure,omitempty"` // "" | err | busykey
	FailKey  string   `json:"failing_key,omitempty"`
	Inputs   int      `json:"input_files,omitempty"`
	KeyExist string   `json:"key_exists,omitempty"`
	FailMsg  string   `json:"injected_error_reply,omitempty"`
	Passwd   string   `json:"-"`
	KeyNames []string `json:"-"`
}

const c07sentinel = "S3NT-tgt-c07"

var slotTags = map[int]string{}
var slotTagsMu sync.Mutex

// slotTag returns a short hash tag whose Cluster slot (by the reference function) is the given one.
func slotTag(slot int) string {
	slotTagsMu.Lock()
	defer slotTagsMu.Unlock()
	if t, ok := slotTags[slot]; ok {
		return t
	}
	for n := 0; ; n++ {
		t := "t" + strconv.Itoa(n)
		if refcrc.Slot([]byte(t)) == slot {
			slotTags[slot] = t
			return t
		}
	}
}

// slotTagBin: like slotTag, with a tag that is not ASCII (UTF-8 text or plain binary: Redis keys are byte strings).
func slotTagBin(slot int, lead string) string {
	slotTagsMu.Lock()
	defer slotTagsMu.Unlock()
	id := -1 - slot - 20000*len(lead)
	if t, ok := slotTags[id]; ok {
		return t
	}
	for n := 0; ; n++ {
		t := lead + strconv.Itoa(n)
		if refcrc.Slot([]byte(t)) == slot {
			slotTags[id] = t
			return t
		}
	}
}

func genC07file(rng *prng.R, c *c07case, tag string) ([]byte, []rdbgen.Record) {
	f := &rdbgen.File{Version: 9}
	ndb := len(c.DBs)
	for i := 0; i < c.Keys; i++ {
		db := c.DBs[rng.Intn(ndb)]
		if i%2 == 0 { // alternate databases between consecutive keys as often as possible
			db = c.DBs[i/2%ndb]
		}
		kind := []string{"string", "list", "set", "zset", "hash", "intset"}[rng.Intn(6)]
		v := rdbgen.RandValue(rng, kind, rng.Pick(1, 2, 5))
		encs := []string{}
		for _, e := range rdbgen.EncodingsFor(v) {
			if e != "quicklist" { // one RESTORE command per key: exactly-once is countable on the wire
				encs = append(encs, e)
			}
		}
		prefix := "k"
		if rng.Chance(1, 3) {
			prefix = "skip:"
		}
		ks := &rdbgen.KeySpec{DB: uint32(db), Key: []byte(fmt.Sprintf("%s%s%d:%s", prefix, tag, i, rng.Alpha(3, "abcxyz"))), Val: v, Enc: encs[rng.Intn(len(encs))]}
		if c.Filter == "slots" {
			// keys aimed at the first, the last and some middle slots (and their neighbours) through a hash tag
			ks.Key = []byte(fmt.Sprintf("{%s}%s%d", slotTag(rng.Pick(0, 16383, 8000, 1, 16382, 7999)), tag, i))
			if i%4 == 3 {
				// ... and every fourth key through a tag in UTF-8 text or raw binary
				ks.Key = []byte(fmt.Sprintf("{%s}%s%d", slotTagBin(rng.Pick(0, 16383, 8000, 1, 16382, 7999), rng.PickS("\xe7\x94\xa8\xe6\x88\xb7", "\xff\xfe")), tag, i))
			}
		}
		if rng.Chance(1, 5) {
			ks.ExpireMs = uint64(time.Now().UnixNano()/1e6) + 86400000*30
		}
		if c.Scripts > 0 && i%(c.Keys/c.Scripts+1) == 1 {
			f.Items = append(f.Items, rdbgen.Item{Meta: &rdbgen.Meta{Kind: "lua", B: []byte(fmt.Sprintf("return %d -- %s", i, tag))}})
		}
		f.Items = append(f.Items, rdbgen.Item{Key: ks})
	}
	return rdbgen.Build(rng, f, 0)
}

func runC07(r resIface, c *c07case, rng *prng.R, scratch string) {
	data, recs := genC07file(rng, c, "")
	inputs := [][]byte{data}
	if c.Mode == "restore" && c.Index%3 == 1 {
		// restore mode takes several input files and loads source.rdb.parallel of them at the same time
		for q := 1; q <= rng.Pick(1, 2); q++ {
			d2, r2 := genC07file(rng.Split(uint64(50+q)), c, string(rune('A'+q)))
			inputs = append(inputs, d2)
			recs = append(recs, r2...)
		}
		c.Inputs = len(inputs)
	}
	ref := &reffilter.Config{}
	conf.Options = conf.Configuration{Parallel: c.Parallel, TargetDB: c.TargetDB, TargetType: conf.RedisTypeStandalone, KeyExists: "none", BigKeyThreshold: 50 << 20,
		TargetVersion: "5.0.7", TargetReplace: true, Metric: true, TargetAuthType: "auth", TargetPasswordRaw: c07sentinel, HttpProfile: -1, SourceRdbParallel: 1, Id: "verif"}
	if c.Fail == "err" {
		// a failing restore must be reported under every key_exists policy, whatever the target's error says
		// (policy, message) pairs are walked in a fixed order so that a quick run covers every message under 'ignore'
		msgs := []string{"ERR injected failure", "BUSY Redis is busy running a script. You can only call SCRIPT KILL or SHUTDOWN NOSAVE.",
			"LOADING Redis is loading the dataset in memory", "OOM command not allowed when used memory > 'maxmemory'.",
			"READONLY You can't write against a read only replica.", "ERR the target is busy, try again", "MISCONF Redis is configured to save RDB snapshots, but it is currently not able to persist on disk."}
		k := (c.Index / 6 / 2) % (3 * len(msgs)) // walks all pairs over the cases that inject an error reply
		c.KeyExist = []string{"ignore", "none", "rewrite"}[k/len(msgs)]
		conf.Options.KeyExists = c.KeyExist
		c.FailMsg = msgs[k%len(msgs)]
	}
	switch c.Filter {
	case "keyblack":
		conf.Options.FilterKeyBlacklist = []string{"skip:"}
		ref.KeyBlack = []string{"skip:"}
	case "keywhite":
		conf.Options.FilterKeyWhitelist = []string{"k"}
		ref.KeyWhite = []string{"k"}
	case "dbblack":
		conf.Options.FilterDBBlacklist = []string{fmt.Sprint(c.DBs[0])}
		ref.DBBlack = []string{fmt.Sprint(c.DBs[0])}
	case "dbwhite":
		conf.Options.FilterDBWhitelist = []string{fmt.Sprint(c.DBs[len(c.DBs)-1])}
		ref.DBWhite = []string{fmt.Sprint(c.DBs[len(c.DBs)-1])}
	case "slots": // the slot list is applied by the full phase of sync only
		conf.Options.FilterSlot = []string{"0", "16383", "8000"}
		ref.Slots = []string{"0", "16383", "8000"}
	}
	// expected keyspace
	type exp struct {
		db  int
		key string
		val *rdbgen.Value
	}
	var want []exp
	scripts := 0
	for _, x := range recs {
		if x.IsScript {
			scripts++ // only filter.lua (off here) may exclude a script
			continue
		}
		if ref.DBExcluded(int(x.DB)) || ref.KeyExcluded(x.Key) || (c.Filter == "slots" && ref.SlotExcluded(x.Key)) {
			continue
		}
		db := int(x.DB)
		if c.TargetDB != -1 {
			db = c.TargetDB
		}
		want = append(want, exp{db, string(x.Key), x.Logical})
	}
	srv := miniredis.NewServer()
	srv.Password = c07sentinel
	tcp, err := srv.ListenTCP()
	if err != nil {
		r.Inconcl("listen: " + err.Error())
		return
	}
	defer tcp.Close()
	sched := miniredis.NewScheduler(c.Policy, rng.Split(3))
	defer sched.Stop()
	sched.Active = tcp.OpenConns
	tcp.Gate = sched.Gate
	if c.Fail == "elem" {
		// the failing command is one element of a key that is rebuilt element by element (threshold 1): the second of at
		// least three, so that the batch's last reply is a success
		cmdOf := map[string]string{"list": "rpush", "hash": "hset", "set": "sadd", "zset": "zadd"}
		c.Fail = "err"
		for _, cand := range rng.Perm(len(want)) {
			w := want[cand]
			if name, ok := cmdOf[w.val.Kind]; ok && w.val.Elements() >= 3 {
				c.Fail, c.FailKey, c.FailMsg = "elem", w.key, "OOM command not allowed when used memory > 'maxmemory'."
				conf.Options.BigKeyThreshold = 1
				srv.Faults = append(srv.Faults, &miniredis.Fault{Cmd: name, Key: w.key, Nth: 2, Reply: miniredis.ErrReply(c.FailMsg)})
				break
			}
		}
	}
	if c.Fail != "" && c.Fail != "elem" && len(want) > 0 {
		fk := want[rng.Intn(len(want))]
		c.FailKey = fk.key
		if c.Fail == "busykey" {
			srv.Put(fk.db, fk.key, &rdbgen.Value{Kind: "string", Str: []byte("already-there")}, 0)
		} else if c.Fail == "drop" {
			srv.Faults = append(srv.Faults, &miniredis.Fault{Cmd: "restore", Key: fk.key, Nth: 1, Reply: miniredis.DropConn})
		} else {
			srv.Faults = append(srv.Faults, &miniredis.Fault{Cmd: "restore", Key: fk.key, Nth: 1, Reply: miniredis.ErrReply(c.FailMsg)})
		}
	} else if c.Fail != "elem" {
		c.Fail = ""
	}
	if inChild {
		wk.ChildCase(c.Index, c)
	}
	var retErr error
	returned := make(chan struct{})
	switch c.Mode {
	case "sync":
		node := &slot.SyncNode{Id: c.Index % 1000, Source: "127.0.0.1:1", SourcePassword: "S3NT-src-c07", Target: []string{tcp.Addr}, TargetPassword: c07sentinel, SlotLeftBoundary: -1, SlotRightBoundary: -1}
		ds := dbSync.NewDbSyncer(node, -1, semaphore.NewWeighted(1))
		go func() {
			retErr = ds.VerifSyncRDBFile(bufio.NewReaderSize(bytes.NewReader(data), 1<<16), []string{tcp.Addr}, "auth", c07sentinel, int64(len(data)), false)
			close(returned)
		}()
	default:
		var ins []string
		for q, d := range inputs {
			in := filepath.Join(scratch, fmt.Sprintf("c07-%d-%d.rdb", c.Index, q))
			ioutil.WriteFile(in, d, 0644)
			defer os.Remove(in)
			ins = append(ins, in)
		}
		conf.Options.SourceRdbInput = ins
		if len(ins) > 1 {
			conf.Options.SourceRdbParallel = rng.Pick(1, 2, 3)
			r.Count("restore_runs_with_several_input_files", 1)
		}
		conf.Options.TargetAddressList = []string{tcp.Addr}
		conf.Options.Type = conf.TypeRestore
		go func() {
			(&run.CmdRestore{}).Main()
			close(returned)
		}()
	}
	select {
	case <-returned:
	case <-time.After(120 * time.Second):
		r.Inconcl(fmt.Sprintf("C07 run %d (%s, parallel %d) did not return within the watchdog", c.Index, c.Mode, c.Parallel))
		return
	}
	// state at return
	srv.Mu.Lock()
	logAtReturn := len(srv.Log)
	srv.Mu.Unlock()
	snap := srv.Snapshot()
	order := sched.OrderSnapshot()
	r.Case(fmt.Sprintf("%s|p%d|db%d|%s|%s|%s|dbs%d", c.Mode, c.Parallel, c.TargetDB, c.Policy, c.Filter, c.Fail, len(c.DBs)))
	r.Count("runs", 1)
	r.Count("keys_expected", int64(len(want)))
	r.Count("mode:"+c.Mode, 1)
	r.Max("max_connections_pending_together", int64(sched.MaxPend))
	sigOrder := fmt.Sprint(order)
	r.Case("interleaving|" + sigOrder) // counts distinct interleavings in distinct_nontrivial
	sig := func(o string) string {
		f := c.Filter
		if f == "" {
			f = "none"
		}
		return fmt.Sprintf("C07|mode=%s|outcome=%s|filter=%s|targetdb=%v", c.Mode, o, f, c.TargetDB != -1)
	}
	if c.Fail != "" {
		// whatever the outcome of a run with a failure in it: no key may sit in a database it does not belong to
		wantAt := map[string]bool{}
		for _, w := range want {
			wantAt[fmt.Sprintf("%d/%s", w.db, w.key)] = true
		}
		for db, keys := range snap {
			for k := range keys {
				if !wantAt[fmt.Sprintf("%d/%s", db, k)] {
					r.Violation(sig("key-in-wrong-database-after-failure"), fmt.Sprintf("after a run with an injected failure (%s on key %q) the target holds key %q in db %d, where the configuration puts no such key", c.Fail, c.FailKey, k, db), c)
					return
				}
			}
		}
	}
	if c.Fail == "drop" {
		// a dropped connection may be reported as a failure, or survived (reconnect and retry): in that case the run is
		// judged like any other - every key exactly once (counting applied commands) in the right database
		r.Count("failure_injections", 1)
		r.Count("connection_drops_injected", 1)
		if retErr != nil {
			r.Count("connection_drops_reported_as_error", 1)
			return
		}
	} else if c.Fail != "" {
		r.Count("failure_injections", 1)
		if c.Mode == "sync" && retErr == nil {
			r.Violation(sig("failure-not-reported"), fmt.Sprintf("restore of key %q failed at the target (%s) but syncRDBFile returned nil", c.FailKey, c.Fail), c)
		}
		if c.Mode == "restore" {
			// reaching this point means Main() returned normally although a restore failed
			r.Violation(sig("failure-not-reported"), fmt.Sprintf("restore of key %q failed at the target (%s) but restore mode finished as a success", c.FailKey, c.Fail), c)
		}
		return
	}
	if retErr != nil {
		r.Violation(sig("unexpected-error"), fmt.Sprintf("syncRDBFile returned %v", retErr), c)
		return
	}
	// every expected key exactly once, in the right database
	perKey := map[string]int{}
	srv.Mu.Lock()
	for _, l := range srv.Log[:logAtReturn] {
		if l.Name == "restore" && len(l.Args) > 0 && l.Reply != "drop" {
			perKey[fmt.Sprintf("%d/%s", l.DB, l.Args[0])]++
		}
	}
	nScripts := len(srv.Scripts)
	srv.Mu.Unlock()
	for _, w := range want {
		id := fmt.Sprintf("%d/%s", w.db, w.key)
		n := perKey[id]
		delete(perKey, id)
		if n == 1 {
			e := snap[w.db][w.key]
			if e == nil || !refrdb.Equal(e.Val, w.val) {
				r.Violation(sig("value-wrong"), fmt.Sprintf("key %q in db %d does not hold the source value after the run", w.key, w.db), c)
				return
			}
			continue
		}
		// where did it go?
		other := ""
		for k := range perKey {
			if strings.HasSuffix(k, "/"+w.key) {
				other = k
			}
		}
		switch {
		case n == 0 && other != "":
			r.Violation(sig("key-in-wrong-database"), fmt.Sprintf("key %q belongs to db %d but was restored as %s (parallel=%d, scheduler=%s)", w.key, w.db, other, c.Parallel, c.Policy), c)
		case n == 0:
			r.Violation(sig("key-missing-at-return"), fmt.Sprintf("key %q (db %d) was not restored when the call returned (parallel=%d)", w.key, w.db, c.Parallel), c)
		default:
			r.Violation(sig("key-restored-twice"), fmt.Sprintf("key %q (db %d) was restored %d times", w.key, w.db, n), c)
		}
		return
	}
	if len(perKey) > 0 {
		var extra []string
		for k := range perKey {
			extra = append(extra, k)
		}
		sort.Strings(extra)
		r.Violation(sig("filtered-key-restored"), fmt.Sprintf("keys restored that the configuration excludes (or into a wrong database): %v", extra[:minI(len(extra), 5)]), c)
		return
	}
	if nScripts != scripts {
		r.Violation(sig("scripts-loaded-wrong"), fmt.Sprintf("%d SCRIPT LOAD for %d lua scripts in the file", nScripts, scripts), c)
		return
	}
	// nothing may arrive after the call returned
	time.Sleep(20 * time.Millisecond)
	srv.Mu.Lock()
	late := len(srv.Log) - logAtReturn
	srv.Mu.Unlock()
	if late > 0 {
		r.Violation(sig("commands-after-return"), fmt.Sprintf("%d commands reached the target after the call had returned", late), c)
		return
	}
	if c.Mode != "sync" || c.Index%6 != 1 {
		return
	}
	// second round: the full phase starts over (a restarted sync after an aborted attempt) against the target that now
	// holds every key, under key_exists=rewrite - with REPLACE on a current target, by delete-and-retry on a 2.8 one.
	// When the call returns every wanted key must (still) hold the source value.
	replace := c.Index/12%2 == 0
	conf.Options.KeyExists, conf.Options.TargetReplace = "rewrite", replace
	if !replace {
		conf.Options.TargetVersion = "2.8.19"
		srv.Mu.Lock()
		srv.NoReplace, srv.BusyMsg = true, "ERR Target key name is busy."
		srv.Mu.Unlock()
	}
	node := &slot.SyncNode{Id: c.Index % 1000, Source: "127.0.0.1:1", SourcePassword: "S3NT-src-c07", Target: []string{tcp.Addr}, TargetPassword: c07sentinel, SlotLeftBoundary: -1, SlotRightBoundary: -1}
	ds := dbSync.NewDbSyncer(node, -1, semaphore.NewWeighted(1))
	again := make(chan error, 1)
	go func() {
		again <- ds.VerifSyncRDBFile(bufio.NewReaderSize(bytes.NewReader(data), 1<<16), []string{tcp.Addr}, "auth", c07sentinel, int64(len(data)), false)
	}()
	select {
	case retErr = <-again:
	case <-time.After(120 * time.Second):
		r.Inconcl(fmt.Sprintf("C07 run %d second round did not return within the watchdog", c.Index))
		return
	}
	r.Count("second_rounds_over_a_populated_target", 1)
	r.Case(fmt.Sprintf("second-round|replace%v|p%d|%s|%s", replace, c.Parallel, c.Policy, c.Filter))
	if retErr != nil {
		r.Violation(sig("second-round-error|replace="+fmt.Sprint(replace)), fmt.Sprintf("full phase repeated over the populated target (key_exists=rewrite, REPLACE %v) returned %v", replace, retErr), c)
		return
	}
	snap = srv.Snapshot()
	for _, w := range want {
		if e := snap[w.db][w.key]; e == nil || !refrdb.Equal(e.Val, w.val) {
			state := "holds another value"
			if e == nil {
				state = "is gone"
			}
			r.Violation(sig("second-round-key-lost|replace="+fmt.Sprint(replace)), fmt.Sprintf("after the full phase was repeated over the populated target (key_exists=rewrite, REPLACE %v) and returned success, key %q of db %d %s", replace, w.key, w.db, state), c)
			return
		}
	}
}

// runC07chunked: a hash above the 16 MiB chunk limit reaches the workers as several records. Under
// key_exists=rewrite the record carrying the first chunk deletes the key first; the scheduler keeps that DEL
// back while other connections still have work, which is a legal network schedule.
func runC07chunked(r resIface, c *c07case, rng *prng.R) {
	hv := &rdbgen.Value{Kind: "hash"}
	for k := 0; k < 36; k++ {
		val := bytes.Repeat([]byte{byte('a' + k%26)}, 1<<20)
		hv.Hash = append(hv.Hash, [2][]byte{[]byte(fmt.Sprintf("field-%d", k)), val})
	}
	f := &rdbgen.File{Version: 9}
	f.Items = append(f.Items, rdbgen.Item{Key: &rdbgen.KeySpec{DB: 0, Key: []byte("big-hash"), Val: hv, Enc: "table"}})
	for k := 0; k < 6; k++ {
		f.Items = append(f.Items, rdbgen.Item{Key: &rdbgen.KeySpec{DB: 0, Key: []byte(fmt.Sprintf("after-%d", k)), Val: rdbgen.RandValue(rng, "string", 1), Enc: "raw"}})
	}
	data, _ := rdbgen.Build(rng, f, 0)
	conf.Options = conf.Configuration{Parallel: c.Parallel, TargetDB: -1, TargetType: conf.RedisTypeStandalone, KeyExists: "rewrite", BigKeyThreshold: 50 << 20,
		TargetVersion: "5.0.7", TargetReplace: true, Metric: true, TargetAuthType: "auth", TargetPasswordRaw: c07sentinel, HttpProfile: -1, Id: "verif"}
	srv := miniredis.NewServer()
	srv.Password = c07sentinel
	srv.KeepLog = false
	srv.Put(0, "big-hash", &rdbgen.Value{Kind: "hash", Hash: [][2][]byte{{[]byte("stale-field"), []byte("stale")}}}, 0)
	tcp, err := srv.ListenTCP()
	if err != nil {
		r.Inconcl("listen: " + err.Error())
		return
	}
	defer tcp.Close()
	sched := miniredis.NewScheduler("oldest", rng.Split(3))
	defer sched.Stop()
	sched.Active = tcp.OpenConns
	sched.Hold = func(conn int, argv [][]byte, others int) bool {
		return strings.ToLower(string(argv[0])) == "del" && tcp.OpenConns() > 1 // other workers still connected
	}
	tcp.Gate = sched.Gate
	node := &slot.SyncNode{Id: 1, Source: "127.0.0.1:1", Target: []string{tcp.Addr}, TargetPassword: c07sentinel, SlotLeftBoundary: -1, SlotRightBoundary: -1}
	ds := dbSync.NewDbSyncer(node, -1, semaphore.NewWeighted(1))
	done := make(chan error, 1)
	go func() {
		done <- ds.VerifSyncRDBFile(bufio.NewReaderSize(bytes.NewReader(data), 1<<16), []string{tcp.Addr}, "auth", c07sentinel, int64(len(data)), false)
	}()
	var retErr error
	select {
	case retErr = <-done:
	case <-time.After(300 * time.Second):
		r.Inconcl("chunked-hash run did not return within the watchdog")
		return
	}
	r.Case(fmt.Sprintf("chunked|p%d", c.Parallel))
	r.Count("runs", 1)
	r.Count("chunked_hash_runs", 1)
	if retErr != nil {
		r.Violation("C07|mode=sync|outcome=unexpected-error|scenario=chunked-hash-rewrite", fmt.Sprintf("syncRDBFile returned %v", retErr), c)
		return
	}
	e := srv.Raw(0, "big-hash")
	if e == nil || !refrdb.Equal(e.Val, hv) {
		n := 0
		if e != nil {
			n = len(e.Val.Hash)
		}
		r.Violation("C07|mode=sync|outcome=chunked-hash-fields-lost|policy=rewrite", fmt.Sprintf("hash of 36 fields (3 chunk records) ends with %d fields at the target under key_exists=rewrite and parallel=%d: the first chunk's DEL was applied after other workers' chunks", n, c.Parallel), c)
	}
}

func minI(a, b int) int {
	if a < b {
		return a
	}
	return b
}

func c07runsChild(raw json.RawMessage, scratch string) {
	a := wk.ParseBatchArg(raw, nil)
	log.SetLevel(log.LEVEL_NONE)
	r := wk.ChildRes("C07")
	inChild = true
	base := prng.New(a.Seed).Split(0xC07)
	for i := a.Start; i < a.End; i++ {
		rng := base.At(uint64(i))
		c := &c07case{Index: i, Mode: "sync", Keys: rng.Pick(50, 120, 400), Parallel: rng.Pick(1, 2, 3, 8, 32), TargetDB: rng.Pick(-1, -1, 2),
			Policy: rng.PickS("random", "roundrobin", "starve", "newest", "oldest"), Filter: rng.PickS("", "", "keyblack", "keywhite", "dbblack", "dbwhite", "slots"), Scripts: rng.Pick(0, 1, 3)}
		if i%4 == 3 {
			c.Mode = "restore"
			if c.Filter == "slots" {
				c.Filter = "" // restore mode has no slot filter
			}
		}
		ndb := rng.Range(1, 6)
		all := []int{0, 1, 2, 3, 5, 15}
		for _, p := range rng.Perm(len(all))[:ndb] {
			c.DBs = append(c.DBs, all[p])
		}
		sort.Ints(c.DBs)
		if i%6 == 2 && i/6%3 == 0 && c.Mode == "sync" {
			// the target drops a worker's connection in the middle of the phase, with and without a fixed target database
			c.Fail = "drop"
			c.TargetDB = []int{2, -1, 5}[i/18%3]
		}
		if i%6 == 5 {
			c.Fail = "err"
			if i/6%4 == 3 {
				c.Fail = "busykey"
			}
			if i/6%4 == 1 {
				c.Fail = "elem"
			}
			c.Keys = 50
		}
		wk.ChildCase(i, c)
		if i >= 7000000 {
			c.Mode, c.Parallel, c.Filter, c.Fail, c.Policy = "sync", rng.Pick(3, 8), "", "", "hold-first-chunk-del"
			wk.ChildCase(i, c)
			runC07chunked(r, c, rng)
			continue
		}
		runC07(r, c, rng, scratch)
		if i == a.Start {
			r.Sample(c)
		}
	}
	wk.ChildDone(r)
}

func c07(c *wk.Ctx) {
	r := c.R
	r.Rule = "RDB files with 50-400 keys over 1-6 databases (SELECTDB alternating between consecutive keys), lua scripts in between, pushed through the real syncRDBFile (hook) and CmdRestore.Main with parallel in {1,2,3,8,32}, target.db in {-1,2}, key/db black/white lists, against a loopback model target whose scheduler (random, round-robin, starve-one, newest-first, oldest-first) chooses which connection's pending command is applied next; per (db,key) RESTORE count must be exactly 1 in the right database at the moment the call returns, scripts loaded once each, nothing arrives after return; one scripted error reply / BUSYKEY on a chosen key must surface as a returned error (sync) or a non-successful end (restore mode); every sixth sync run is followed by a second full phase over the populated target (key_exists=rewrite, with and without REPLACE) after which every wanted key must hold the source value. distinct = configuration tuple + every distinct interleaving signature (sequence of connection ids)"
	onDeath := func(d wk.Death) {
		if d.Result.TimedOut {
			r.Inconcl("C07 child watchdog: " + wk.Tail(d.Result.Stderr, 300))
			return
		}
		var cs c07case
		json.Unmarshal(d.Desc, &cs)
		if cs.Fail == "drop" {
			r.Count("runs", 1)
			r.Count("failure_injections", 1)
			r.Count("connection_drops_injected", 1)
			r.Count("failures_reported_by_exit", 1)
			return
		}
		if cs.Fail != "" && cs.Mode == "restore" {
			r.Count("runs", 1)
			r.Count("failure_injections", 1)
			r.Count("failures_reported_by_exit", 1)
			return // the run reported the failure by ending with [PANIC]/non-zero exit: that is what the statement asks for
		}
		r.Violationf(fmt.Sprintf("C07|mode=%s|outcome=process-aborted", cs.Mode), json.RawMessage(d.Desc), "full sync / restore ended the process (exit %d) without an injected failure: %s", d.Result.Exit, firstPanicLine(d.Result.Stderr))
	}
	if wk.ReplayOne(c, "c07runs", nil, onDeath) {
		return
	}
	n := c.N(144, 9600)
	parts := 12
	nch := c.N(1, 3)
	wk.Parallel(parts+nch, 13, func(p int) {
		if p >= parts {
			wk.RunBatch(c, "c07runs", 7000000+p-parts, 7000000+p-parts+1, nil, 30*time.Minute, onDeath)
			return
		}
		wk.RunBatch(c, "c07runs", n*p/parts, n*(p+1)/parts, nil, 30*time.Minute, onDeath)
	})
	r.Floor("second_rounds_over_a_populated_target", 8)
	r.Floor("runs", 100)
	r.Floor("failure_injections", 10)
	r.Floor("connection_drops_injected", 4)
	r.Floor("mode:sync", 50)
	r.Floor("mode:restore", 20)
	r.Floor("max_connections_pending_together", 4)
	r.Assume("one RESTORE command per key (no quicklist encodings, threshold above every payload) so exactly-once is countable on the wire; every lua script must be loaded whatever db/key filter is configured (filter.lua is off in these runs); the scheduler's settle time only shapes interleavings, no verdict depends on it")
}
