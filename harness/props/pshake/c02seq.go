package pshake

import (
	"bytes"
	"encoding/json"
	"fmt"

	"github.com/alibaba/RedisShake/pkg/libs/log"
	"github.com/alibaba/RedisShake/pkg/rdb"
	utils "github.com/alibaba/RedisShake/redis-shake/common"
	conf "github.com/alibaba/RedisShake/redis-shake/configure"

	"verif/harness/lib/miniredis"
	"verif/harness/lib/prng"
	"verif/harness/lib/rdbgen"
	"verif/harness/lib/refrdb"
	"verif/harness/lib/wk"
)

// Sequence stage of C02: the element-by-element route as rump drives it (utils.RestoreBigkey): one connection restores
// the same key name into several databases one after the other, some of which already hold a key of that name. After
// every call "the selected target database holds for that key exactly the source's logical value" and every other
// database still holds what it held. A free key must never be reported busy.

func init() { wk.RegisterChild("c02seq", c02seqChild) }

type c02seqCase struct {
	Index  int      `json:"index"`
	Policy string   `json:"key_exists"`
	Steps  []string `json:"steps"`
	Stale  []int    `json:"databases_holding_a_stale_key_of_that_name"`
}

func c02seqChild(raw json.RawMessage, scratch string) {
	a := wk.ParseBatchArg(raw, nil)
	log.SetLevel(log.LEVEL_NONE)
	r := wk.ChildRes("C02")
	inChild = true
	base := prng.New(a.Seed).Split(0xC025)
	for i := a.Start; i < a.End; i++ {
		rng := base.At(uint64(i))
		cs := &c02seqCase{Index: i, Policy: []string{"rewrite", "none"}[i%2]}
		conf.Options = conf.Configuration{KeyExists: cs.Policy, TargetReplace: true, BigKeyThreshold: 1, TargetVersion: "5.0.7", Metric: true}
		srv := miniredis.NewServer()
		key := "shared-name"
		dbs := rng.Perm(4)[:rng.Range(2, 4)]
		stale := map[int]*rdbgen.Value{}
		for _, db := range []int{0, 1, 2, 3} {
			present := rng.Bool()
			if cs.Policy == "none" {
				// 'none' aborts on a busy key by design: stale keys only in databases this sequence does not write to
				present = present && !containsInt(dbs, db)
			}
			if present {
				stale[db] = &rdbgen.Value{Kind: "list", List: [][]byte{[]byte(fmt.Sprintf("stale-%d-a", db)), []byte("stale-b")}}
				srv.Put(db, key, miniredis.CloneValue(stale[db]), 0)
				cs.Stale = append(cs.Stale, db)
			}
		}
		type step struct {
			db      int
			v       *rdbgen.Value
			payload []byte
		}
		var steps []step
		for _, db := range dbs {
			v := rdbgen.RandValue(rng, []string{"list", "set", "zset", "hash"}[rng.Intn(4)], rng.Pick(1, 3, 7))
			encs := rdbgen.EncodingsFor(v)
			ks := &rdbgen.KeySpec{DB: uint32(db), Key: []byte(key), Val: v, Enc: encs[rng.Intn(len(encs))]}
			data, _ := rdbgen.Build(rng, &rdbgen.File{Version: 9, Items: []rdbgen.Item{{Key: ks}}}, 0)
			l := rdb.NewLoader(bytes.NewReader(data))
			l.Header()
			e, err := l.NextBinEntry()
			if err != nil || e == nil {
				r.Inconcl("C02 sequence stage: loader failed on a generated file")
				continue
			}
			steps = append(steps, step{db, v, e.Value})
			cs.Steps = append(cs.Steps, fmt.Sprintf("db%d <- %s(%d)", db, v.Kind, v.Elements()))
		}
		wk.ChildCase(i, cs)
		conn := srv.NewConn()
		preDb := 0
		expected := map[int]*rdbgen.Value{}
		for db, v := range stale {
			expected[db] = v
		}
		bad := false
		for n, st := range steps {
			utils.RestoreBigkey(conn, key, string(st.payload), 0, st.db, &preDb) // aborts the process on any failure
			expected[st.db] = st.v
			for _, db := range []int{0, 1, 2, 3} {
				got := srv.Raw(db, key)
				want := expected[db]
				switch {
				case want == nil && got != nil:
					r.Violation("C02|route=rump-bigkey|policy="+cs.Policy+"|outcome=key-written-into-another-database", fmt.Sprintf("step %d restored %q into db %d; db %d now holds a key of that name although nothing was restored there", n, key, st.db, db), cs)
					bad = true
				case want != nil && got == nil:
					o := "key-missing"
					if db != st.db {
						o = "key-of-another-database-deleted"
					}
					r.Violation("C02|route=rump-bigkey|policy="+cs.Policy+"|outcome="+o, fmt.Sprintf("step %d restored %q into db %d; afterwards db %d has no such key (it should hold %s)", n, key, st.db, db, describeV(want)), cs)
					bad = true
				case want != nil && !refrdb.Equal(got.Val, want):
					o := "value-differs"
					if db != st.db {
						o = "key-of-another-database-changed"
					}
					r.Violation("C02|route=rump-bigkey|policy="+cs.Policy+"|outcome="+o, fmt.Sprintf("step %d restored %q into db %d; afterwards db %d holds %s, expected %s", n, key, st.db, db, describeV(got.Val), describeV(want)), cs)
					bad = true
				}
				if bad {
					break
				}
			}
			if bad {
				break
			}
		}
		r.Case(fmt.Sprintf("seq|%s|steps%d|stale%d", cs.Policy, len(steps), len(cs.Stale)))
		r.Count("route:rump-bigkey-sequences", 1)
		if i == a.Start {
			r.Sample(cs)
		}
	}
	wk.ChildDone(r)
}

func describeV(v *rdbgen.Value) string {
	if v == nil {
		return "nothing"
	}
	return fmt.Sprintf("%s(%d elements)", v.Kind, v.Elements())
}
