package pshake

import (
	"encoding/json"
	"fmt"
	"os"
	"strconv"
	"strings"
	"sync"
	"sync/atomic"
	"time"

	"github.com/alibaba/RedisShake/pkg/libs/log"

	"verif/harness/lib/fakesource"
	"verif/harness/lib/miniredis"
	"verif/harness/lib/prng"
	"verif/harness/lib/rdbgen"
	"verif/harness/lib/wk"
)

func init() {
	wk.Register("C08", c08)
	wk.RegisterChild("c08hist", c08histChild)
}

type c08case struct {
	Index       int     `json:"index"`
	Resume      bool    `json:"resume"`
	StartOffset int64   `json:"start_offset"`
	Traffic     string  `json:"traffic_plan"`
	Drop        string  `json:"drop_plan"`
	Commands    int     `json:"commands"`
	DropsAt     []int64 `json:"drop_positions,omitempty"`
}

func runC08(r resIface, c *c08case, cfg *e2eCfg, rng *prng.R) {
	cmds := genStream(rng, streamOpts{N: c.Commands, DBs: []int{0, 1, 2}, Modelled: true, Tx: true, Keys: 4, StartDB: -1, LFs: true})
	stream := streamBytes(cmds)
	sc := fakesource.Script{RunID: e2eRunID, StartOffset: c.StartOffset, RDB: minimalRDB(rng, nil)}
	var slowFull func(e *e2eRun)
	if c.Traffic == "during-full-sync" {
		// a full phase that lasts about a second (slow target) while the command stream is already arriving
		var ks []*rdbgen.KeySpec
		for i := 0; i < 150; i++ {
			ks = append(ks, &rdbgen.KeySpec{DB: uint32(i % 2), Key: []byte(fmt.Sprintf("rdbkey-%d", i)), Val: &rdbgen.Value{Kind: "string", Str: []byte("v")}, Enc: "raw"})
		}
		sc.RDB = minimalRDB(rng, ks)
		slowFull = func(x *e2eRun) {
			x.TCP.Gate = func(conn int, argv [][]byte) {
				if strings.EqualFold(string(argv[0]), "restore") {
					time.Sleep(12 * time.Millisecond)
				}
			}
		}
	}
	var e *e2eRun
	var err error
	if c.Traffic == "backlog-behind-rdb" {
		e, err = startE2E(cfg, sc, nil, false, func(x *e2eRun) { x.Src.Feed(stream) })
	} else if slowFull != nil {
		e, err = startE2E(cfg, sc, nil, false, slowFull)
	} else {
		e, err = startE2E(cfg, sc, nil, false)
	}
	if err != nil {
		r.Inconcl("startE2E: " + err.Error())
		return
	}
	// drop positions
	cmdEnds := []int64{}
	for _, x := range cmds {
		cmdEnds = append(cmdEnds, x.End)
	}
	pick := func(kind string) int64 {
		i := rng.Range(len(cmdEnds)/4, 3*len(cmdEnds)/4)
		switch kind {
		case "boundary":
			return cmdEnds[i]
		case "mid":
			return cmdEnds[i] - int64(rng.Range(1, 5))
		}
		return cmdEnds[i] + 1
	}
	var drops []int64
	switch c.Drop {
	case "boundary", "mid", "after-boundary":
		drops = []int64{pick(map[string]string{"boundary": "boundary", "mid": "mid", "after-boundary": "x"}[c.Drop])}
	case "twice":
		a, b := pick("mid"), pick("boundary")
		if a > b {
			a, b = b, a
		}
		if a == b {
			b = a + 7
		}
		drops = []int64{a, b}
	}
	c.DropsAt = drops
	// feed traffic over wall-clock time spanning several ack ticks
	feedAll := func() {
		switch c.Traffic {
		case "burst-idle-burst":
			h := len(stream) / 2
			e.Src.Feed(stream[:h])
			time.Sleep(2300 * time.Millisecond)
			e.Src.Feed(stream[h:])
		case "trickle":
			n := 24
			for i := 0; i < n; i++ {
				lo, hi := len(stream)*i/n, len(stream)*(i+1)/n
				e.Src.Feed(stream[lo:hi])
				time.Sleep(150 * time.Millisecond)
			}
		case "during-full-sync":
			e.Src.Feed(stream[:len(stream)/2]) // arrives while the RDB is still being restored
			time.Sleep(1500 * time.Millisecond)
			e.Src.Feed(stream[len(stream)/2:])
		case "backlog-behind-rdb": // already handed to the master before the tool connected
		default: // "early-burst": everything at once, then idle
			e.Src.Feed(stream)
		}
	}
	var wg sync.WaitGroup
	wg.Add(1)
	go func() {
		defer wg.Done()
		for k, d := range drops {
			e.Src.DropAfter(d)
			// wait until that drop happened and the tool came back with a PSYNC, then arm the next one
			waitUntil(30*time.Second, func() bool { return e.Src.DropCount() > k })
			waitUntil(20*time.Second, func() bool { _, p := e.Src.Snapshot(); return len(p) >= k+2 })
		}
	}()
	if c.Drop == "idle" {
		// drop the link while nothing is flowing
		go func() {
			time.Sleep(1500 * time.Millisecond)
			e.Src.DropNow()
		}()
	}
	feedAll()
	wg.Wait()
	if c.Drop == "idle" {
		// the quiet period must start after the tool has come back (its ack ticker restarts with the new link)
		waitUntil(15*time.Second, func() bool { _, p := e.Src.Snapshot(); return len(p) >= 2 })
	}
	// quiet period: everything written, then >= 2.5 s of silence so that at least two ack ticks pass
	total := int64(len(stream))
	waitUntil(25*time.Second, func() bool { return e.Src.Written() >= total })
	quietFrom := time.Now()
	time.Sleep(2700 * time.Millisecond)
	acks, psyncs := e.Src.Snapshot()
	sig := func(o string) string { return fmt.Sprintf("C08|outcome=%s|drop=%s|resume=%v", o, c.Drop, c.Resume) }
	r.Case(fmt.Sprintf("%s|%s|off%d|resume%v", c.Traffic, c.Drop, c.StartOffset, c.Resume))
	r.Count("histories", 1)
	r.Count("acks_observed", int64(len(acks)))
	r.Count("reconnects_observed", int64(len(psyncs)-1))
	r.Count("drop:"+c.Drop, 1)
	if e.Src.Written() < total {
		r.Inconcl(fmt.Sprintf("source could not write the whole stream (%d of %d) within the watchdog", e.Src.Written(), total))
		return
	}
	// --- ACK timeline
	prev := int64(-1)
	nonzero := 0
	for _, a := range acks {
		if a.Value == 0 && nonzero == 0 {
			continue // 'no offset yet' acknowledgements of the full phase
		}
		nonzero++
		if a.Value > c.StartOffset+a.Written {
			r.Violation(sig("ack-ahead-of-received"), fmt.Sprintf("REPLCONF ACK %d while only %d stream bytes had been written (start offset %d => at most %d)", a.Value, a.Written, c.StartOffset, c.StartOffset+a.Written), c)
			return
		}
		if a.Value < prev {
			r.Violation(sig("ack-decreased"), fmt.Sprintf("REPLCONF ACK went from %d back to %d", prev, a.Value), c)
			return
		}
		prev = a.Value
		// freshness: what the master had written 0.7 s before this ACK arrived had long been received (loopback), so an
		// ACK that "equals start + bytes received" covers it. A process that cannot keep a 20 ms timer within 0.3 s
		// is too loaded for this comparison: inconclusive then.
		if old := e.Src.WrittenBefore(a.At.Add(-700 * time.Millisecond)); a.Value < c.StartOffset+old {
			r.Count("acks_judged_stale", 1)
			if lag := lagSoFar(); lag > 300*time.Millisecond {
				r.Inconcl(fmt.Sprintf("ACK %d looked stale while this process delayed a 20 ms timer by %v", a.Value, lag))
				return
			}
			r.Violation(sig("ack-behind-received"), fmt.Sprintf("REPLCONF ACK %d arrived although the master had written up to offset %d more than 0.7 s earlier (start %d + %d bytes): the acknowledged offset is not start + bytes received", a.Value, c.StartOffset+old, c.StartOffset, old), c)
			return
		}
		r.Count("acks_checked_for_freshness", 1)
	}
	var lastQuiet *fakesource.Ack
	for i := range acks {
		if acks[i].At.After(quietFrom.Add(1200 * time.Millisecond)) {
			lastQuiet = &acks[i]
		}
	}
	if lastQuiet == nil {
		r.Violation(sig("no-ack-when-idle"), fmt.Sprintf("no REPLCONF ACK arrived during 2.7 s of silence after the whole stream was written (%d acks in total)", len(acks)), c)
		return
	}
	if lastQuiet.Value != c.StartOffset+total {
		r.Violation(sig("ack-not-start-plus-received"), fmt.Sprintf("after 2.7 s of silence the acknowledged offset is %d; start %d + %d bytes received = %d", lastQuiet.Value, c.StartOffset, total, c.StartOffset+total), c)
		return
	}
	// --- reconnects
	wantDrops := len(drops)
	if c.Drop == "idle" {
		wantDrops = 1
	}
	if os.Getenv("VERIF_DEBUG") != "" {
		for _, d := range e.Src.Drops {
			fmt.Fprintf(os.Stderr, "DROP at %s pos %d\n", d.At.Format("15:04:05.000"), d.Pos)
		}
		for _, p := range psyncs {
			fmt.Fprintf(os.Stderr, "PSYNC at %s %s %d written=%d\n", p.At.Format("15:04:05.000"), p.RunID, p.Offset, p.Written)
		}
	}
	if len(psyncs)-1 < wantDrops {
		r.Violation(sig("no-reconnect"), fmt.Sprintf("%d link drops, %d PSYNC re-issued", wantDrops, len(psyncs)-1), c)
		return
	}
	for i := 1; i < len(psyncs); i++ {
		p := psyncs[i]
		if p.RunID != e2eRunID {
			r.Violation(sig("reconnect-runid-wrong"), fmt.Sprintf("reconnect #%d asked PSYNC %q, the source announced %q", i, p.RunID, e2eRunID), c)
			return
		}
		// the bytes written before this PSYNC are exactly those the tool received (the link was closed gracefully)
		if p.Offset != c.StartOffset+p.Written+1 {
			r.Violation(sig("reconnect-offset-wrong"), fmt.Sprintf("reconnect #%d asked PSYNC offset %d; start %d + %d bytes received + 1 = %d", i, p.Offset, c.StartOffset, p.Written, c.StartOffset+p.Written+1), c)
			return
		}
	}
	// --- the command stream continued at the exact byte: target equals the reference history
	ref := miniredis.NewServer()
	if c.Traffic == "during-full-sync" {
		for i := 0; i < 150; i++ {
			ref.Put(i%2, fmt.Sprintf("rdbkey-%d", i), &rdbgen.Value{Kind: "string", Str: []byte("v")}, 0)
		}
	}
	applyRef(ref, cmds, cfg, 1<<62)
	want := expectedForward(cmds, cfg, 0)
	wantData, _ := stripPings(want)
	ok := waitUntil(30*time.Second, func() bool {
		lg := e.DataLog()
		got, _, _ := appliedCommands(lg, e.Src.Addr, incrConnOf(lg))
		g, _ := stripPings(got)
		return len(g) >= len(wantData)
	})
	_ = ok
	if d := miniredis.DiffKeyspaces(stripCheckpoints(e.Srv.Snapshot()), stripCheckpoints(ref.Snapshot()), false); d != "" {
		r.Violation(sig("stream-not-continued-exactly"), "target differs from the source history after the run (bytes lost or repeated at a reconnect?): "+d, c)
		return
	}
	// --- checkpoint offsets are exact stream positions
	if c.Resume {
		ends := allowedEnds(cmds, cfg)
		for _, l := range e.DataLog() {
			if l.Name == "hset" && len(l.Args) == 3 && strings.HasPrefix(string(l.Args[0]), ckptKey) && string(l.Args[1]) == e.Src.Addr+"-offset" && l.Reply != "queued" {
				o, _ := strconv.ParseInt(string(l.Args[2]), 10, 64)
				r.Count("checkpoint_offsets_checked", 1)
				if _, ok := ends[o-c.StartOffset]; !ok {
					r.Violation(sig("checkpoint-offset-not-a-stream-position"), fmt.Sprintf("checkpoint stores offset %d = start %d + %d, which is not the end of a forwarded command", o, c.StartOffset, o-c.StartOffset), c)
					return
				}
			}
		}
	}
}

// timer lag of this process (max overshoot of a 20 ms sleep since the monitor started), for timing comparisons
var lagMon struct {
	once sync.Once
	max  int64
}

func lagSoFar() time.Duration {
	lagMon.once.Do(func() {
		go func() {
			for {
				t := time.Now()
				time.Sleep(20 * time.Millisecond)
				if d := int64(time.Since(t) - 20*time.Millisecond); d > atomic.LoadInt64(&lagMon.max) {
					atomic.StoreInt64(&lagMon.max, d)
				}
			}
		}()
	})
	return time.Duration(atomic.LoadInt64(&lagMon.max))
}

type c08extra struct {
	Resume bool `json:"resume"`
}

func c08histChild(raw json.RawMessage, scratch string) {
	var ex c08extra
	a := wk.ParseBatchArg(raw, &ex)
	log.SetLevel(log.LEVEL_NONE)
	if os.Getenv("VERIF_DEBUG") != "" {
		log.SetLevel(log.LEVEL_INFO)
	}
	r := wk.ChildRes("C08")
	lagSoFar() // starts the timer-lag monitor
	inChild = true
	base := prng.New(a.Seed).Split(0xC08)
	cfg := &e2eCfg{Resume: ex.Resume, TargetDB: -1, SenderCount: 16, SenderSize: 65535, Parallel: 2, Metric: true}
	cfg.apply()
	var wg sync.WaitGroup
	var mu sync.Mutex
	for i := a.Start; i < a.End; i++ {
		rng := base.At(uint64(i))
		c := &c08case{Index: i, Resume: ex.Resume, StartOffset: []int64{0, 1, 1<<31 - 5, 1 << 40, 1<<32 - 300}[i%5], Traffic: []string{"early-burst", "burst-idle-burst", "trickle", "during-full-sync"}[i/4%4],
			Drop: []string{"none", "boundary", "mid", "after-boundary", "twice", "idle"}[i%6], Commands: rng.Pick(40, 120)}
		if c.Traffic == "early-burst" && i%2 == 0 {
			// a backlog of tens of kilobytes that the master writes right behind the RDB (it accumulated while the RDB was
			// being produced): it reaches the tool together with the RDB, before the stream copy has even started
			c.Traffic, c.Commands = "backlog-behind-rdb", 1500
		}
		mu.Lock()
		wk.ChildCase(i, c)
		mu.Unlock()
		wg.Add(1)
		go func(c *c08case, rng *prng.R) {
			defer wg.Done()
			runC08(r, c, cfg, rng)
		}(c, rng)
		if i == a.Start {
			r.Sample(c)
		}
		time.Sleep(61 * time.Millisecond) // spread the tick phases of the concurrent histories
	}
	wg.Wait()
	wk.ChildDone(r)
}

func c08(c *wk.Ctx) {
	r := c.R
	r.Rule = "fault enumeration over link-drop positions x traffic histories over wall-clock time: end-to-end DbSyncer.Sync() runs against a scripted master that records every REPLCONF ACK and PSYNC together with the number of stream bytes it had written by then; start offsets {0, 1, 2^31-5, 2^40}; traffic plans (early burst then idle, a 60 KB backlog written right behind the RDB, burst-idle-burst, steady trickle across many ack ticks, stream arriving while a slowed-down full phase is still restoring the RDB); drop plans (none, at a command boundary, inside a command, one byte after a boundary, twice, while idle). ACK <= start+written, never decreasing, == start+total after 2.7 s of silence; reconnect PSYNC <announced id> <start+received+1>; final target == source history (INCR/APPEND/RPUSH make a lost or repeated byte visible); with resume on every stored checkpoint offset is the end of a forwarded command. distinct = (traffic plan, drop plan, start offset, resume)"
	onDeath := func(d wk.Death) {
		if d.Result.TimedOut {
			r.Inconcl("C08 child watchdog: " + wk.Tail(d.Result.Stderr, 300))
			return
		}
		r.Violationf("C08|outcome=process-aborted", json.RawMessage(d.Desc), "sync ended the process (exit %d): %s", d.Result.Exit, firstPanicLine(d.Result.Stderr))
	}
	if wk.ReplayOne(c, "c08hist", func(idx int) interface{} { return c08extra{Resume: idx/1000%2 == 1} }, onDeath) {
		return
	}
	per := c.N(16, 48)
	nchild := c.N(4, 48)
	wk.Parallel(nchild, 8, func(i int) {
		wk.RunBatch(c, "c08hist", i*1000, i*1000+per, c08extra{Resume: i%2 == 1}, 40*time.Minute, onDeath)
	})
	r.Floor("histories", 30)
	r.Floor("acks_observed", 100)
	r.Floor("reconnects_observed", 15)
	r.Assume("ACKs are produced once per second by the tool; the oracle uses inequalities valid for any tick phase and demands equality only after the master has been silent for 2.7 s (>= 2 ticks). A dropped link is closed gracefully by the master, so every byte written before the drop was received.")
}
