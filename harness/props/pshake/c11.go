package pshake

import (
	"bufio"
	"bytes"
	"encoding/binary"
	"encoding/json"
	"errors"
	"fmt"
	"hash"
	"io"
	"runtime/debug"
	"runtime/metrics"
	"time"

	extcrc "github.com/cupcake/rdb/crc64"

	incrc "github.com/alibaba/RedisShake/pkg/libs/cupcake/rdb/crc64"
	"github.com/alibaba/RedisShake/pkg/libs/log"
	"github.com/alibaba/RedisShake/pkg/rdb"
	"github.com/alibaba/RedisShake/pkg/rdb/digest"
	utils "github.com/alibaba/RedisShake/redis-shake/common"

	"verif/harness/lib/prng"
	"verif/harness/lib/rdbgen"
	"verif/harness/lib/refcrc"
	"verif/harness/lib/wk"
)

func init() {
	wk.Register("C11", c11)
	wk.RegisterChild("c11rdb", c11rdbChild)
	wk.RegisterChild("c11dump", c11dumpChild)
}

var allocSample = []metrics.Sample{{Name: "/gc/heap/allocs:bytes"}}

func allocatedBytes() uint64 {
	metrics.Read(allocSample)
	return allocSample[0].Value.Uint64()
}

// hugeAllocs counts mutants that made the loader allocate gigabytes (a corrupted length; for aux fields the
// loader even copies the buffer into a string for its log line). The enumeration child asks to be restarted
// after a few of them so that its heap stays small. Housekeeping only; not part of any verdict.
var hugeAllocs int

func loadAllCheap(data []byte) string {
	before := allocatedBytes()
	how := loadAll(data)
	if allocatedBytes()-before > 32<<20 {
		hugeAllocs++
	}
	return how
}

// splitReader hands out the bytes in pieces of the given sizes (cycled): short reads, as a socket or a buffer
// boundary produces them.
type splitReader struct {
	data        []byte
	sizes       []int
	k           int
	eofWithData bool // the final piece is returned together with io.EOF (legal for an io.Reader)
	softErr     int  // > 0: every softErr-th read that delivers all the bytes asked for also reports a temporary error
	full        int
}

// errSoft: a temporary condition reported together with the data (a deadline that ran out while the bytes were already
// there); the io.Reader contract tells callers to use the n bytes first, and io.ReadFull drops the error of a read that
// filled the buffer
var errSoft = errors.New("temporary condition reported with the data")

func (s *splitReader) Read(p []byte) (int, error) {
	if len(s.data) == 0 {
		return 0, io.EOF
	}
	n := s.sizes[s.k%len(s.sizes)]
	s.k++
	if n > len(p) {
		n = len(p)
	}
	if n > len(s.data) {
		n = len(s.data)
	}
	copy(p, s.data[:n])
	s.data = s.data[n:]
	if len(s.data) == 0 && s.eofWithData {
		return n, io.EOF
	}
	if s.softErr > 0 && n == len(p) && n > 0 {
		if s.full++; s.full%s.softErr == 0 {
			return n, errSoft
		}
	}
	return n, nil
}

// loadAllSplit is loadAll over a source that delivers the file in pieces.
func loadAllSplit(data []byte, sizes []int, buffered int) (how string) {
	defer func() {
		if x := recover(); x != nil {
			how = "panic"
		}
	}()
	var src io.Reader = &splitReader{data: data, sizes: sizes, eofWithData: buffered == -1}
	if buffered < -1 {
		src.(*splitReader).softErr = -buffered
	}
	if buffered > 0 {
		src = bufio.NewReaderSize(src, buffered)
	}
	l := rdb.NewLoader(src)
	if err := l.Header(); err != nil {
		return "header"
	}
	for {
		e, err := l.NextBinEntry()
		if err != nil {
			return "entry"
		}
		if e == nil {
			break
		}
	}
	if err := l.Footer(); err != nil {
		return "footer"
	}
	return ""
}

// loadAll runs Header..Footer; returns "" when the file is accepted, else how it was rejected.
func loadAll(data []byte) (how string) {
	defer func() {
		if x := recover(); x != nil {
			how = "panic"
		}
	}()
	l := rdb.NewLoader(bytes.NewReader(data))
	if err := l.Header(); err != nil {
		return "header"
	}
	for {
		e, err := l.NextBinEntry()
		if err != nil {
			return "entry"
		}
		if e == nil {
			break
		}
	}
	if err := l.Footer(); err != nil {
		return "footer"
	}
	return ""
}

// smallFile: no metadata items (aux, lua, module-aux): a corrupted aux length makes the loader allocate AND copy
// up to 4 GiB per mutant for its log line (seconds and gigabytes of resident memory each), so those positions are not enumerated.
func smallFile(rng *prng.R, maxLen int) ([]byte, *rdbgen.File) {
	for {
		o := rdbgen.FileOpts{MaxKeys: rng.Pick(1, 2, 3), MaxElems: rng.Pick(1, 3, 6), Streams: true, Metadata: false, MultiDB: rng.Bool(), Expiry: true}
		f := rdbgen.RandFile(rng, o)
		data, _ := rdbgen.Build(rng, f, rng.Pick(0, 3))
		if len(data) <= maxLen && len(data) > 20 {
			return data, f
		}
	}
}

type c11case struct {
	Artefact int    `json:"artefact"`
	Pos      int    `json:"position"`
	Sub      int    `json:"substitute,omitempty"`
	Version  int    `json:"rdb_version,omitempty"`
	Hex      string `json:"bytes_hex,omitempty"`
}

func c11rdbChild(raw json.RawMessage, scratch string) {
	a := wk.ParseBatchArg(raw, nil)
	log.SetLevel(log.LEVEL_NONE)
	r := wk.ChildRes("C11")
	base := prng.New(a.Seed).Split(0x11DB)
	// Corrupted 32-bit lengths make the loader allocate up to 4 GiB per mutant. With the collector off such
	// spans are never re-used (re-use would force the runtime to zero them: ~1 s each in this VM) and stay
	// untouched virtual memory; the child asks to be restarted after a few of them. Housekeeping only.
	debug.SetGCPercent(-1)
	// case index = artefact*1e6 + position*256 + substitute byte
	curArt := -1
	var data []byte
	var f *rdbgen.File
	var hexs string
	for idx := a.Start; idx < a.End; idx++ {
		art, pos, sub := idx/1000000, idx%1000000/256, idx%1000000%256
		if art != curArt {
			data, f = smallFile(base.At(uint64(art)), 300)
			hexs = fmt.Sprintf("%x", data)
			curArt = art
			if pos == 0 && sub == 0 {
				cs := c11case{Artefact: art, Version: f.Version, Hex: hexs}
				wk.ChildCase(idx, cs)
				// the intact file must be accepted; every truncation must be rejected
				if how := loadAll(data); how != "" {
					r.Violationf("C11|rdb|outcome=intact-rejected", cs, "intact RDB (version %d) rejected at %s", f.Version, how)
				}
				// ... however its bytes are split across reads
				for _, sh := range []struct {
					name  string
					sizes []int
					buf   int
				}{{"1-byte", []int{1}, 0}, {"1,2,3,7", []int{1, 2, 3, 7}, 0}, {"halves", []int{(len(data) + 1) / 2}, 0}, {"bufio16-over-5", []int{5}, 16}, {"bufio64-over-1,100", []int{1, 100}, 64}, {"last-bytes-with-EOF", []int{7, 64}, -1}, {"whole-file-with-EOF", []int{1 << 20}, -1}, {"every-3rd-complete-read-with-a-temporary-error", []int{1 << 20}, -3}, {"every-2nd-complete-read-with-a-temporary-error", []int{4, 9}, -2}} {
					r.Count("rdb_intact_split_deliveries", 1)
					if how := loadAllSplit(data, sh.sizes, sh.buf); how != "" {
						r.Violationf("C11|rdb|outcome=intact-rejected-when-split|delivery="+sh.name, cs, "intact RDB (version %d, %d bytes) delivered in pieces (%s) rejected at %s", f.Version, len(data), sh.name, how)
					}
				}
			}
		}
		if pos > len(data) {
			idx = (art+1)*1000000 - 1
			continue
		}
		if hugeAllocs >= 4 {
			wk.ChildYield(r, idx)
		}
		cs := c11case{Artefact: art, Pos: pos, Sub: sub, Version: f.Version}
		if sub == 0 {
			cs.Hex = hexs
		}
		wk.ChildCase(idx, cs)
		cs.Hex = hexs
		if pos == len(data) {
			if sub != 0 {
				idx = (art+1)*1000000 - 1
				continue
			}
			// every truncation must be rejected (the intact file was checked when the artefact was opened)
			for cut := 0; cut < len(data); cut++ {
				if how := loadAllCheap(data[:cut]); how == "" {
					r.Violationf("C11|rdb|outcome=truncated-accepted", cs, "RDB truncated to %d of %d bytes accepted", cut, len(data))
				}
			}
			r.Count("rdb_artefacts", 1)
			r.Count("rdb_intact_accepted", 1)
			r.Count("rdb_truncations", int64(len(data)))
			r.Case(fmt.Sprintf("rdb|v%d|%d", f.Version, len(data)/40))
			r.Sample(map[string]interface{}{"artefact": "rdb", "version": f.Version, "bytes": len(data), "hex": hexs, "mutants": len(data) * 255})
			continue
		}
		if byte(sub) == data[pos] {
			continue
		}
		region := "data"
		if pos >= len(data)-8 {
			region = "checksum"
		} else if pos < 9 {
			region = "header"
		}
		m := append([]byte{}, data...)
		m[pos] = byte(sub)
		how := loadAllCheap(m)
		if how == "" {
			r.Violationf(fmt.Sprintf("C11|rdb|outcome=corrupted-accepted|region=%s|version-class=%s", region, verClass(f.Version)), cs,
				"RDB (version %d) with byte %d changed %#02x->%#02x (%s region) accepted: Footer() verified", f.Version, pos, data[pos], sub, region)
		} else {
			r.Count("rdb_rejected_at_"+how, 1)
		}
		r.Cases(1)
		r.Count("rdb_mutants", 1)
	}
	wk.ChildDone(r)
}

func verClass(v int) string {
	if v <= 5 {
		return "le5"
	}
	return "ge6"
}

// payloads: built from generator values, wrapped by the tool's own loader (createValueDump)
func toolPayload(rng *prng.R, classic bool) (payload []byte, label string) {
	for {
		kinds := rdbgen.Kinds
		if classic {
			kinds = rdbgen.Kinds[:6]
		}
		v := rdbgen.RandValue(rng, kinds[rng.Intn(len(kinds))], rng.Pick(1, 2, 4))
		encs := rdbgen.EncodingsFor(v)
		ks := &rdbgen.KeySpec{Key: []byte("k"), Val: v, Enc: encs[rng.Intn(len(encs))]}
		data, recs := rdbgen.Build(rng, &rdbgen.File{Version: 9, Items: []rdbgen.Item{{Key: ks}}}, 0)
		l := rdb.NewLoader(bytes.NewReader(data))
		if l.Header() != nil {
			return nil, "loader-failed"
		}
		e, err := l.NextBinEntry()
		if err != nil || e == nil {
			return nil, "loader-failed"
		}
		if len(e.Value) <= 200 {
			return e.Value, recs[0].Encoding
		}
	}
}

func decodeDumpRejects(p []byte) (rejected bool, how string) {
	defer func() {
		if x := recover(); x != nil {
			rejected, how = true, "panic"
		}
	}()
	if _, err := rdb.DecodeDump(p); err != nil {
		return true, "error"
	}
	return false, ""
}

func checkVCRejects(p []byte) (rejected bool, how string) {
	defer func() {
		if x := recover(); x != nil {
			rejected, how = true, "panic"
		}
	}()
	if _, _, err := utils.CheckVersionChecksum(p); err != nil {
		return true, "error"
	}
	return false, ""
}

func withVersion(p []byte, ver uint16) []byte {
	q := append([]byte{}, p[:len(p)-10]...)
	q = append(q, byte(ver), byte(ver>>8))
	crc := refcrc.CRC64(0, q)
	var c [8]byte
	binary.LittleEndian.PutUint64(c[:], crc)
	return append(q, c[:]...)
}

func c11dumpChild(raw json.RawMessage, scratch string) {
	a := wk.ParseBatchArg(raw, nil)
	log.SetLevel(log.LEVEL_NONE)
	r := wk.ChildRes("C11")
	base := prng.New(a.Seed).Split(0x11DD)
	for idx := a.Start; idx < a.End; idx++ {
		rng := base.At(uint64(idx))
		p, label := toolPayload(rng, true)
		cs := c11case{Artefact: idx, Hex: fmt.Sprintf("%x", p)}
		wk.ChildCase(idx, cs)
		if p == nil {
			r.Inconcl("could not obtain a payload from the loader")
			continue
		}
		// (1) the tool's own payload verifies under both of its checkers and is the reference CRC
		if rej, _ := decodeDumpRejects(p); rej {
			r.Violationf("C11|payload|checker=DecodeDump|outcome=own-payload-rejected", cs, "payload emitted by the loader (%s) is rejected by rdb.DecodeDump", label)
		}
		if ver, sum, err := utils.CheckVersionChecksum(p); err != nil || ver != uint(rdb.ToVersion) || sum != refcrc.CRC64(0, p[:len(p)-8]) {
			r.Violationf("C11|payload|checker=CheckVersionChecksum|outcome=own-payload-rejected", cs, "CheckVersionChecksum on the loader's payload: version=%d checksum=%#x err=%v (reference crc %#x)", ver, sum, err, refcrc.CRC64(0, p[:len(p)-8]))
		}
		if binary.LittleEndian.Uint64(p[len(p)-8:]) != refcrc.CRC64(0, p[:len(p)-8]) {
			r.Violationf("C11|payload|outcome=trailer-not-redis-crc64", cs, "payload trailer is not the Redis CRC-64 of the preceding bytes")
		}
		// (2) every single-byte substitution at every position
		m := append([]byte{}, p...)
		for pos := 0; pos < len(p); pos++ {
			region := "value"
			if pos >= len(p)-8 {
				region = "crc"
			} else if pos >= len(p)-10 {
				region = "version"
			} else if pos == 0 {
				region = "type"
			}
			for sub := 0; sub < 256; sub++ {
				if byte(sub) == p[pos] {
					continue
				}
				m[pos] = byte(sub)
				if rej, _ := decodeDumpRejects(m); !rej {
					r.Violationf("C11|payload|checker=DecodeDump|outcome=altered-accepted|region="+region, cs, "payload with byte %d changed %#02x->%#02x (%s) accepted by rdb.DecodeDump", pos, p[pos], sub, region)
				}
				if rej, _ := checkVCRejects(m); !rej {
					r.Violationf("C11|payload|checker=CheckVersionChecksum|outcome=altered-accepted|region="+region, cs, "payload with byte %d changed %#02x->%#02x (%s) accepted by CheckVersionChecksum", pos, p[pos], sub, region)
				}
			}
			m[pos] = p[pos]
		}
		r.Cases(int64(len(p) * 255 * 2))
		r.Count("payload_mutants", int64(len(p)*255))
		// (3) truncations: every prefix, in particular everything shorter than the trailer
		for cut := 0; cut < len(p); cut++ {
			if rej, _ := decodeDumpRejects(p[:cut]); !rej {
				r.Violationf("C11|payload|checker=DecodeDump|outcome=truncated-accepted", cs, "payload truncated to %d bytes accepted by DecodeDump", cut)
			}
			if rej, _ := checkVCRejects(p[:cut]); !rej {
				r.Violationf("C11|payload|checker=CheckVersionChecksum|outcome=truncated-accepted", cs, "payload truncated to %d bytes accepted by CheckVersionChecksum", cut)
			}
		}
		for cut := 0; cut < 10; cut++ {
			junk := rng.Bytes(cut)
			if rej, _ := checkVCRejects(junk); !rej {
				r.Violationf("C11|payload|checker=CheckVersionChecksum|outcome=short-accepted", cs, "%d-byte input accepted", cut)
			}
			if rej, _ := decodeDumpRejects(junk); !rej {
				r.Violationf("C11|payload|checker=DecodeDump|outcome=short-accepted", cs, "%d-byte input accepted", cut)
			}
		}
		// (4) versions above the supported one, with a recomputed VALID crc
		vers := []uint16{10, 11, 12, 255, 256, 257, 0x0100 | 6, 0x0100 | 9, 0x0200, 0x0206, 0x7f09, 0xff06, 0xffff, uint16(10 + rng.Intn(65000))}
		for _, ver := range vers {
			q := withVersion(p, ver)
			if rej, _ := checkVCRejects(q); !rej {
				hi := "low"
				if ver > 255 {
					hi = "high-byte-set"
				}
				r.Violationf("C11|payload|checker=CheckVersionChecksum|outcome=newer-version-accepted|version="+hi, cs, "payload with version %d (> supported %d) and a valid checksum accepted by CheckVersionChecksum", ver, utils.RDBVersion)
			}
			if rej, _ := decodeDumpRejects(q); !rej {
				r.Violationf("C11|payload|checker=DecodeDump|outcome=newer-version-accepted", cs, "payload with version %d and a valid checksum accepted by DecodeDump", ver)
			}
			r.Count("newer_version_payloads", 1)
		}
		// supported versions with valid crc are accepted by CheckVersionChecksum
		for ver := uint16(1); ver <= uint16(utils.RDBVersion); ver++ {
			if rej, _ := checkVCRejects(withVersion(p, ver)); rej {
				r.Violationf("C11|payload|checker=CheckVersionChecksum|outcome=supported-version-rejected", cs, "intact payload with supported version %d rejected", ver)
			}
		}
		r.Count("payload_artefacts", 1)
		r.Case("dump|" + label + fmt.Sprintf("|%d", len(p)/20))
		if idx == a.Start {
			r.Sample(map[string]interface{}{"artefact": "dump-payload", "encoding": label, "hex": cs.Hex, "mutants_per_checker": len(p) * 255})
		}
	}
	wk.ChildDone(r)
}

func c11(c *wk.Ctx) {
	r := c.R
	log.SetLevel(log.LEVEL_NONE)
	r.Rule = "digest: digest.New, in-repo crc64 and module crc64 vs a bitwise CRC-64/Jones on random strings x random chunkings (1-byte, empty writes, Reset); " +
		"fault enumeration, exhaustive per artefact: every position x every one of the 255 substitute bytes and every truncation of generated RDB files (<=300 bytes, versions 1-9) through Header..Footer, and of DUMP payloads emitted by the tool's loader (<=200 bytes) through rdb.DecodeDump and CheckVersionChecksum; versions above the supported one with a recomputed valid CRC; concurrent stage: groups of 2-16 loaders parse their own intact generated files at the same time (as the tool does with several sources/input files) and every emitted payload's trailer (chunk records of a 42 MiB hash included, one file in every fourth group) must be the CRC-64 of its own bytes and every end-of-file check must pass. distinct = artefact shape classes"
	r.Exhaustive = true
	if msg := refcrc.SelfTest(); msg != "" {
		r.Inconcl("refcrc self-test failed: " + msg)
		return
	}
	rng := c.Rng
	// ---- digest part (in-process)
	type mk struct {
		name string
		new  func() hash.Hash64
	}
	impls := []mk{
		{"digest.New", func() hash.Hash64 { return digest.New() }},
		{"cupcake-inrepo.New", func() hash.Hash64 { return incrc.New().(hash.Hash64) }},
		{"cupcake-module.New", func() hash.Hash64 { return extcrc.New().(hash.Hash64) }},
	}
	for i := 0; i < c.N(3000, 200000); i++ {
		n := rng.Pick(0, 1, 2, 7, 8, 9, 63, 64, 65, 255, 256, 1000, 4096, 70000)
		if rng.Bool() {
			n = rng.Range(0, 3000)
		}
		p := rng.Bytes(n)
		want := refcrc.CRC64(0, p)
		chunking := rng.Intn(4)
		for _, im := range impls {
			h := im.new()
			if rng.Chance(1, 4) { // Reset after junk
				h.Write(rng.Bytes(13))
				h.Reset()
			}
			rest := p
			for len(rest) > 0 {
				k := len(rest)
				switch chunking {
				case 0:
					k = 1
				case 1:
					k = rng.Range(0, 9)
				case 2:
					k = rng.Range(1, 700)
				}
				if k > len(rest) {
					k = len(rest)
				}
				h.Write(rest[:k])
				rest = rest[k:]
			}
			if got := h.Sum64(); got != want {
				r.Violationf("C11|digest|impl="+im.name+"|outcome=not-redis-crc64", fmt.Sprintf("%x", trunc11(p)), "%s over %d bytes (chunking %d) = %#x, Redis CRC-64 = %#x", im.name, n, chunking, got, want)
			}
			sum := h.Sum(nil)
			if len(sum) != 8 {
				r.Violationf("C11|digest|impl="+im.name+"|outcome=sum-length", n, "Sum(nil) has %d bytes", len(sum))
			}
		}
		if got := incrc.Digest(p); got != want {
			r.Violationf("C11|digest|impl=cupcake-inrepo.Digest|outcome=not-redis-crc64", fmt.Sprintf("%x", trunc11(p)), "Digest(%d bytes)=%#x want %#x", n, got, want)
		}
		if got := extcrc.Digest(p); got != want {
			r.Violationf("C11|digest|impl=cupcake-module.Digest|outcome=not-redis-crc64", fmt.Sprintf("%x", trunc11(p)), "Digest(%d bytes)=%#x want %#x", n, got, want)
		}
		r.Case(fmt.Sprintf("digest|%d|%d", lenClass11(n), chunking))
		r.Count("digest_strings", 1)
	}
	// ---- fault enumeration in children
	onDeath := func(kind string) func(d wk.Death) {
		return func(d wk.Death) {
			if d.Result.TimedOut {
				r.Inconcl("C11 " + kind + " child watchdog")
				return
			}
			// a crash on a corrupted artefact is a rejection (counted); on the intact artefact it is a violation
			var cs c11case
			json.Unmarshal(d.Desc, &cs)
			r.Count("rejected_by_process_crash", 1)
			r.Note(fmt.Sprintf("%s artefact %d position %d: process ended (exit %d) while checking mutants: %s", kind, cs.Artefact, cs.Pos, d.Result.Exit, firstPanicLine(d.Result.Stderr)))
		}
	}
	nR, nD := c.N(16, 480), c.N(32, 960)
	type job struct {
		name       string
		start, end int
	}
	var jobs []job
	for a := 0; a < nR; a++ {
		jobs = append(jobs, job{"c11rdb", a * 1000000, (a + 1) * 1000000})
	}
	for p := 0; p < 8; p++ {
		jobs = append(jobs, job{"c11dump", nD * p / 8, nD * (p + 1) / 8})
	}
	nC := c.N(24, 600)
	for p := 0; p < 4; p++ {
		jobs = append(jobs, job{"c11conc", nC * p / 4, nC * (p + 1) / 4})
	}
	wk.Parallel(len(jobs), 15, func(i int) {
		j := jobs[i]
		if j.name == "c11conc" {
			wk.RunBatch(c, j.name, j.start, j.end, nil, 30*time.Minute, func(d wk.Death) {
				if d.Result.TimedOut {
					r.Inconcl("C11 concurrent-loaders child watchdog")
					return
				}
				r.Violationf("C11|concurrent-loaders|outcome=process-aborted", json.RawMessage(d.Desc), "concurrent loaders on intact files ended the process (exit %d): %s", d.Result.Exit, firstPanicLine(d.Result.Stderr))
			})
			return
		}
		wk.RunBatch(c, j.name, j.start, j.end, nil, 30*time.Minute, onDeath(j.name))
	})
	r.Floor("concurrent_loader_groups", 20)
	r.Floor("concurrent_payloads_checked", 3000)
	r.Floor("chunk_record_payloads_checked", 9)
	r.Floor("rdb_mutants", 200000)
	r.Floor("payload_mutants", 200000)
	r.Floor("rdb_intact_accepted", 8)
	r.Floor("digest_strings", 1000)
	r.Assume("bitwise CRC-64/Jones reference (check value 0xe9c6d914c4b8d9ca verified each run); a process crash on a corrupted artefact counts as a rejection and is reported in evidence")
}

func trunc11(p []byte) []byte {
	if len(p) > 64 {
		return p[:64]
	}
	return p
}

func lenClass11(n int) int {
	switch {
	case n < 8:
		return n
	case n < 64:
		return 8
	case n < 256:
		return 9
	case n < 4096:
		return 10
	}
	return 11
}
