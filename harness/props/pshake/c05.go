package pshake

import (
	"bytes"
	"encoding/json"
	"fmt"
	"io"
	"io/ioutil"
	"os"
	"path/filepath"
	"strings"
	"sync"
	"time"

	"golang.org/x/sync/semaphore"

	"github.com/alibaba/RedisShake/pkg/libs/log"
	run "github.com/alibaba/RedisShake/redis-shake"
	utils "github.com/alibaba/RedisShake/redis-shake/common"
	conf "github.com/alibaba/RedisShake/redis-shake/configure"
	"github.com/alibaba/RedisShake/redis-shake/dbSync"
	"github.com/alibaba/RedisShake/redis-shake/dbSync/slot"

	"verif/harness/lib/fakesource"
	"verif/harness/lib/prng"
	"verif/harness/lib/wk"
)

func init() {
	wk.Register("C05", c05)
	wk.RegisterChild("c05cases", c05casesChild)
}

const c05srcPw = "S3NT-src-c05"

type c05case struct {
	Index     int    `json:"index"`
	Path      string `json:"path"` // psync | continue | dump | iocopy
	N         int    `json:"rdb_bytes"`
	Stream    int    `json:"stream_bytes"`
	NLBefore  int    `json:"newlines_before_reply"`
	NLBetween int    `json:"newlines_before_dollar"`
	Word      string `json:"reply_word"`
	Frag      string `json:"fragmentation"`
	Reader    string `json:"reader_pacing"`
	Drop      bool   `json:"drop_and_resume"`
	Seed      uint64 `json:"seed"`
}

// position-coded payloads: RDB byte i = f(seed, i); stream byte i = f(seed+1, i)
func codeBytes(seed uint64, n int) []byte {
	b := make([]byte, n)
	for i := range b {
		x := (uint64(i) + seed*1000003) * 0x9E3779B97F4A7C15
		b[i] = byte(x >> 56)
	}
	return b
}

func firstDiff(a, b []byte) int {
	n := len(a)
	if len(b) < n {
		n = len(b)
	}
	for i := 0; i < n; i++ {
		if a[i] != b[i] {
			return i
		}
	}
	if len(a) != len(b) {
		return n
	}
	return -1
}

func fragPlan(name string, n int, rng *prng.R) []int {
	switch name {
	case "all":
		return nil
	case "dribble1":
		return []int{1}
	case "small-odd":
		return []int{1, 2, 3, 5, 7, 11, 13}
	case "8k-1":
		return []int{8191}
	case "8k":
		return []int{8192}
	case "8k+1":
		return []int{8193}
	case "header-split": // split inside "$n\r\n" and right at the RDB/stream boundary +-1
		return []int{1, 1, 1, 1, 1, 1, 1, 1, 1, 1, 1, 1, 1, 1, 1, 1, 1, 1, 1, 1, 1, 1, 1, 1, 1, 1, 1, 1, 1, 1, 1, 1, 1, 1, 1, 1, 1, 1, 1, 1, 1, 1, 1, 1, 1, 1, 1, 1, 1, 1, 1, 1, 1, 1, 1, 1, 1, 1, 1, 1, 1, 1, 1, 1, n - 60, 1, 1, 1, 1, 4096}
	case "random":
		p := []int{}
		for i := 0; i < 23; i++ {
			p = append(p, rng.Pick(1, 2, 100, 1460, 4096, 8191, 8192, 8193, 65536, rng.Range(1, 20000)))
		}
		return p
	}
	return nil
}

func readPaced(rd io.Reader, want int, pacing string, rng *prng.R, timeout time.Duration) ([]byte, error) {
	out := make([]byte, 0, want)
	deadline := time.Now().Add(timeout)
	extended := false
	buf := make([]byte, 1<<16)
	type res struct {
		n   int
		err error
	}
	for len(out) < want {
		sz := len(buf)
		switch pacing {
		case "slow":
			sz = rng.Pick(1, 7, 100, 8191)
		case "bursty":
			if rng.Chance(1, 6) {
				time.Sleep(time.Duration(rng.Intn(3)) * time.Millisecond)
			}
			sz = rng.Pick(1, 4096, 8192, 65536)
		}
		if sz > want-len(out) {
			sz = want - len(out)
		}
		ch := make(chan res, 1)
		go func() { n, err := rd.Read(buf[:sz]); ch <- res{n, err} }()
	wait:
		select {
		case r := <-ch:
			out = append(out, buf[:r.n]...)
			if r.err != nil {
				return out, r.err
			}
		case <-time.After(time.Until(deadline)):
			if !extended {
				// bytes are outstanding: a loaded machine gets more patience, once, before "lost" is concluded
				extended = true
				deadline = time.Now().Add(90 * time.Second)
				goto wait
			}
			return out, fmt.Errorf("timeout after %d of %d bytes", len(out), want)
		}
	}
	return out, nil
}

func runC05(r resIface, c *c05case, rng *prng.R, scratch string) {
	rdb := codeBytes(c.Seed, c.N)
	stream := codeBytes(c.Seed+1, c.Stream)
	if c.Index%5 == 3 {
		// the command stream opens with keep-alive newlines (a master sends them while it has nothing to say): they are
		// stream bytes like any other - counted in offsets, handed to the parser
		for k := 0; k < len(stream) && k < 1+c.Index%3; k++ {
			stream[k] = '\n'
		}
	}
	// make the stream start with a byte that cannot be mistaken for RDB content at the boundary
	sig := func(o string) string { return fmt.Sprintf("C05|path=%s|outcome=%s", c.Path, o) }
	if c.Path == "iocopy" {
		runC05iocopy(r, c, rng)
		return
	}
	sc := fakesource.Script{RunID: "aaaabbbbccccddddeeeeffff0000111122223333", StartOffset: int64(rng.Pick(0, 1, 1000, 1<<31-5, 1<<32-40, 1<<40)), ReplyWord: c.Word, ContWord: contWordFor(c.Word),
		NLBefore: c.NLBefore, NLBetween: c.NLBetween, RDB: rdb, Frag: fragPlan(c.Frag, c.N, rng), Continue: c.Path == "continue"}
	if c.Frag == "dribble1" && c.N+c.Stream > 70000 {
		sc.Frag = []int{1, 1, 1, 1, 1, 50000}
	}
	src, err := fakesource.New(sc, c05srcPw)
	if err != nil {
		r.Inconcl("fakesource: " + err.Error())
		return
	}
	// the source is deliberately left open: the tool's reconnect loop of this case lives on after the case, and
	// a freed port could be handed to a later case's source, which would then see a stranger's PSYNC
	drops := []int64{int64(c.Stream / 2)} // the link dies after half of the stream; the rest must arrive over the resumed link
	if c.Index%8 == 2 && c.Stream >= 8 {
		drops = append(drops, int64(c.Stream/2+c.Stream/4)) // ... and the resumed link dies as well
	}
	if c.Drop {
		src.DropAfterEach(drops...)
	}
	src.Feed(stream)
	watchdog := 60*time.Second + time.Duration(c.N/200000)*time.Second
	r.Case(fmt.Sprintf("%s|n%d|nl%d/%d|%s|%s|%s|drop%v", c.Path, sizeClass(c.N), c.NLBefore, c.NLBetween, c.Word, c.Frag, c.Reader, c.Drop))
	r.Count("path:"+c.Path, 1)
	r.Count("bytes_checked", int64(c.N+c.Stream))
	switch c.Path {
	case "psync", "continue":
		node := &slot.SyncNode{Id: c.Index % 1000, Source: src.Addr, SourcePassword: c05srcPw, Target: []string{"127.0.0.1:1"}, TargetPassword: "S3NT-tgt-c05", SlotLeftBoundary: -1, SlotRightBoundary: -1}
		ds := dbSync.NewDbSyncer(node, 9320, semaphore.NewWeighted(1))
		askRun, askOff := "?", int64(-1)
		if c.Path == "continue" {
			askRun, askOff = sc.RunID, sc.StartOffset
			ds.VerifSetOffset(askOff)
		} else if c.Index%3 == 1 {
			// a resumed start whose checkpoint is stale: the syncer asks with an old run id and an offset far beyond what
			// the source (restarted / failed over) now announces, and is told to resync fully from the announced offset
			askRun, askOff = "0123456789abcdef0123456789abcdef01234567", sc.StartOffset+500000
			ds.VerifSetOffset(askOff)
			r.Count("full_resyncs_answering_a_stale_resume", 1)
		} else {
			ds.VerifSetOffset(-1)
		}
		type ret struct {
			rd    io.Reader
			nsize int64
			full  bool
			runid string
			err   error
		}
		ch := make(chan ret, 1)
		go func() {
			rd, nsize, full, runid, err := ds.VerifSendPSyncCmd(src.Addr, "auth", c05srcPw, false, askRun)
			ch <- ret{rd, nsize, full, runid, err}
		}()
		var rt ret
		select {
		case rt = <-ch:
		case <-time.After(watchdog):
			r.Inconcl(fmt.Sprintf("sendPSyncCmd did not return within the watchdog (%s)", c.Frag))
			return
		}
		if rt.err != nil {
			r.Violation(sig("handshake-error"), fmt.Sprintf("psync start failed: %v", rt.err), c)
			return
		}
		wantN, wantFull := int64(c.N), true
		if c.Path == "continue" {
			wantN, wantFull = 0, false
		}
		if rt.nsize != wantN || rt.full != wantFull {
			r.Violation(sig("size-or-mode-wrong"), fmt.Sprintf("returned nsize=%d full=%v, source announced $%d (continue=%v)", rt.nsize, rt.full, c.N, c.Path == "continue"), c)
			return
		}
		if rt.runid != sc.RunID {
			r.Violation(sig("runid-wrong"), fmt.Sprintf("returned run id %q, source announced %q", rt.runid, sc.RunID), c)
			return
		}
		if got := ds.VerifSourceOffset(); got != sc.StartOffset {
			r.Violation(sig("offset-wrong"), fmt.Sprintf("start offset kept by the syncer is %d, source announced %d", got, sc.StartOffset), c)
			return
		}
		want := append(append([]byte{}, rdb...), stream...)
		if c.Path == "continue" {
			want = stream
		}
		got, err := readPaced(rt.rd, len(want), c.Reader, rng, watchdog)
		d := firstDiff(got, want)
		if d >= 0 || err != nil {
			where := "rdb"
			if c.Path == "continue" || d >= c.N {
				where = "stream"
			}
			if c.Path == "psync" && d >= c.N-2 && d <= c.N+2 {
				where = "boundary"
			}
			if c.Drop && d >= len(want)-c.Stream+c.Stream/2-2 {
				where = "after-resume"
			}
			r.Violation(sig("bytes-differ|where="+where), fmt.Sprintf("pipe content differs from what the source sent at byte %d of %d (RDB is %d bytes; read error %v): got %x want %x", d, len(want), c.N, err, around(got, d), around(want, d)), c)
			return
		}
		if c.Drop {
			_, ps := src.Snapshot()
			if len(ps) < 2 {
				r.Violation(sig("no-resume-after-drop"), "all bytes arrived although the link was dropped, yet no second PSYNC was seen", c)
				return
			}
			if ps[1].RunID != sc.RunID {
				r.Violation(sig("resume-runid-wrong"), fmt.Sprintf("resume asked PSYNC %q %d, the id announced by the source is %q", ps[1].RunID, ps[1].Offset, sc.RunID), c)
				return
			}
			if len(ps) < 1+len(drops) {
				r.Violation(sig("no-resume-after-drop"), fmt.Sprintf("all bytes arrived although the link was dropped %d times, yet only %d PSYNCs were seen", len(drops), len(ps)), c)
				return
			}
			for k, at := range drops {
				// every resume asks for the announced start + all bytes received so far + 1, however many links came before
				if wantOff := sc.StartOffset + at + 1; ps[1+k].Offset != wantOff || ps[1+k].RunID != sc.RunID {
					r.Violation(sig(fmt.Sprintf("resume-offset-wrong|resume=%d", k+1)), fmt.Sprintf("resume %d asked PSYNC %q %d; announced start %d + %d bytes received + 1 = %d", k+1, ps[1+k].RunID, ps[1+k].Offset, sc.StartOffset, at, wantOff), c)
					return
				}
			}
			if len(drops) > 1 {
				r.Count("second_resumes_observed", 1)
			}
			r.Count("resumes_observed", 1)
		}
	case "dump":
		out := filepath.Join(scratch, fmt.Sprintf("dump-%d", c.Index))
		defer os.Remove(out)
		if c.Index/6%2 == 1 {
			// the output path already holds an older, longer dump (a re-run into the same file name)
			old := bytes.Repeat([]byte{0xEE}, c.N+1+c.Index%977)
			ioutil.WriteFile(out, old, 0644)
			r.Count("dumps_over_an_existing_longer_file", 1)
		}
		type ret struct {
			left []byte
			n    int64
		}
		ch := make(chan ret, 1)
		go func() {
			rd, n := run.VerifDump(c.Index%100, src.Addr, c05srcPw, out)
			// whatever the reader buffered beyond the RDB stays available for the command phase
			k := rd.Buffered()
			b, _ := rd.Peek(k)
			ch <- ret{append([]byte{}, b...), n}
		}()
		var rt ret
		select {
		case rt = <-ch:
		case <-time.After(watchdog):
			r.Inconcl("dump did not return within the watchdog")
			return
		}
		file, err := ioutil.ReadFile(out)
		if err != nil {
			r.Violation(sig("no-output-file"), err.Error(), c)
			return
		}
		if rt.n != int64(c.N) {
			r.Violation(sig("size-wrong"), fmt.Sprintf("dump reports %d bytes, source announced %d", rt.n, c.N), c)
			return
		}
		if d := firstDiff(file, rdb); d >= 0 {
			r.Violation(sig("file-differs"), fmt.Sprintf("dump file (%d bytes) differs from the %d RDB bytes at %d: got %x want %x", len(file), c.N, d, around(file, d), around(rdb, d)), c)
			return
		}
		if len(rt.left) > len(stream) || firstDiff(rt.left, stream[:len(rt.left)]) >= 0 {
			r.Violation(sig("leftover-not-stream-start"), fmt.Sprintf("bytes left in the reader after the RDB (%d) are not the beginning of the command stream: %x vs %x", len(rt.left), around(rt.left, 0), around(stream, 0)), c)
		}
	}
}

func contWordFor(w string) string {
	switch w {
	case "fullresync", "continue":
		return "continue"
	case "FullResync", "Continue":
		return "Continue"
	}
	return "CONTINUE"
}

func around(b []byte, i int) []byte {
	if i < 0 {
		i = 0
	}
	lo, hi := i-4, i+8
	if lo < 0 {
		lo = 0
	}
	if hi > len(b) {
		hi = len(b)
	}
	if lo > hi {
		lo = hi
	}
	return b[lo:hi]
}

func sizeClass(n int) int {
	k := 0
	for n > 1 {
		n >>= 1
		k++
	}
	return k
}

// shortReader returns fewer bytes than asked for, per plan.
type shortReader struct {
	p   []byte
	rng *prng.R
}

func (s *shortReader) Read(b []byte) (int, error) {
	if len(s.p) == 0 {
		return 0, io.EOF
	}
	n := s.rng.Pick(1, 2, len(b), len(b)/2+1, 8191, 8192)
	if n > len(b) {
		n = len(b)
	}
	if n > len(s.p) {
		n = len(s.p)
	}
	copy(b, s.p[:n])
	s.p = s.p[n:]
	return n, nil
}

func runC05iocopy(r resIface, c *c05case, rng *prng.R) {
	data := codeBytes(c.Seed, c.N+c.Stream)
	sr := &shortReader{p: append([]byte{}, data...), rng: rng}
	var out bytes.Buffer
	left := c.N
	p := make([]byte, rng.Pick(1, 100, 8192, 65536))
	r.Case(fmt.Sprintf("iocopy|n%d|buf%d", sizeClass(c.N), len(p)))
	r.Count("path:iocopy", 1)
	for left != 0 {
		before := out.Len()
		n := utils.Iocopy(sr, &out, p, left)
		if n != out.Len()-before || n > left || n <= 0 {
			r.Violation("C05|path=iocopy|outcome=count-wrong", fmt.Sprintf("Iocopy(max=%d) returned %d but wrote %d bytes", left, n, out.Len()-before), c)
			return
		}
		left -= n
	}
	if d := firstDiff(out.Bytes(), data[:c.N]); d >= 0 {
		r.Violation("C05|path=iocopy|outcome=bytes-differ", fmt.Sprintf("bounded copy of %d bytes differs at %d", c.N, d), c)
		return
	}
	rest, _ := ioutil.ReadAll(sr)
	if d := firstDiff(rest, data[c.N:]); d >= 0 {
		r.Violation("C05|path=iocopy|outcome=read-past-bound", fmt.Sprintf("bytes after the bound were consumed or altered (%d left, expected %d)", len(rest), c.Stream), c)
	}
}

func genC05(rng *prng.R, i int, big bool) *c05case {
	c := &c05case{Index: i, Seed: rng.U64() >> 16}
	c.Path = []string{"psync", "psync", "psync", "continue", "dump", "iocopy"}[i%6]
	c.N = rng.Pick(1, 2, 3, 100, 8191, 8192, 8193, 65535, 65536, 65537, 300000, 1<<20)
	if big {
		c.N = rng.Pick(33<<20, 34<<20+13)
		c.Path = rng.PickS("psync", "dump")
	}
	c.Stream = rng.Pick(1, 2, 64, 8192, 8193, 70000, 200000)
	c.NLBefore = rng.Pick(0, 0, 1, 2, 5)
	c.NLBetween = rng.Pick(0, 0, 1, 3, 5)
	c.Word = rng.PickS("FULLRESYNC", "fullresync", "FullResync", "FULLRESYNC")
	if c.Path == "continue" {
		c.Word = rng.PickS("CONTINUE", "continue", "Continue")
		c.NLBetween = 0
	}
	c.Frag = rng.PickS("all", "dribble1", "small-odd", "8k-1", "8k", "8k+1", "header-split", "random", "random")
	if c.Frag == "header-split" && c.N < 100 {
		c.Frag = "small-odd"
	}
	c.Reader = rng.PickS("fast", "slow", "bursty")
	if big {
		c.Frag = rng.PickS("all", "random", "8k+1")
		c.Reader = rng.PickS("fast", "bursty")
	}
	if c.N >= 300000 && c.Reader == "slow" {
		c.Reader = "bursty"
	}
	if c.Path == "psync" && !big && i%4 == 2 {
		c.Drop = true
		if c.Stream < 64 {
			c.Stream = 64
		}
	}
	return c
}

type c05extra struct {
	Big bool `json:"big"`
}

func c05casesChild(raw json.RawMessage, scratch string) {
	var ex c05extra
	a := wk.ParseBatchArg(raw, &ex)
	log.SetLevel(log.LEVEL_NONE)
	r := wk.ChildRes("C05")
	base := prng.New(a.Seed).Split(0xC05)
	conf.Options = conf.Configuration{SourceAuthType: "auth", SourcePasswordRaw: c05srcPw, HttpProfile: 9320, Id: "verif", Metric: true, Psync: true, SourceRdbParallel: 1}
	// hand-offs run two at a time (one per source link in the tool), except the 34 MiB ones
	width := 2
	if ex.Big {
		width = 1
	}
	var pmu sync.Mutex
	for g := a.Start; g < a.End; g += width {
		var wg sync.WaitGroup
		for i := g; i < g+width && i < a.End; i++ {
			wg.Add(1)
			go func(i int) {
				defer wg.Done()
				rng := base.At(uint64(i))
				c := genC05(rng, i, ex.Big)
				pmu.Lock()
				wk.ChildCase(i, c)
				pmu.Unlock()
				t0 := time.Now()
				runC05(r, c, rng, scratch)
				if d := time.Since(t0); d > 3*time.Second {
					r.Note(fmt.Sprintf("slow case %d: %v path=%s n=%d stream=%d frag=%s reader=%s drop=%v", i, d.Round(time.Millisecond), c.Path, c.N, c.Stream, c.Frag, c.Reader, c.Drop))
				}
				if i == a.Start {
					r.Sample(c)
				}
			}(i)
		}
		wg.Wait()
	}
	wk.ChildDone(r)
}

func c05(c *wk.Ctx) {
	r := c.R
	r.Rule = "a scripted master (lib/fakesource) answers PSYNC/SYNC with 0-5 keep-alive newlines before the reply and before '$n', +FULLRESYNC/+CONTINUE in several letter cases, n position-coded RDB bytes (1 .. 34 MiB, at 8191/8192/8193 and 65535/65536/65537) followed by position-coded stream bytes, written under fragmentation plans (all at once, 1-byte dribble, odd sizes, 8 KiB+-1, 1-byte writes across the '$n\\r\\n' header and the RDB/stream boundary, random) to the real sendPSyncCmd (hook), dump path (hook) and utils.Iocopy; the pipe content / dump file / leftover reader bytes are compared byte for byte, returned run id, offset and size with what was announced; every fourth psync case drops the link (every second of those drops the resumed link as well) and checks id and offset of every resume PSYNC. distinct = (path, size class, newlines, reply word, fragmentation, reader pacing, drop)"
	onDeath := func(d wk.Death) {
		if d.Result.TimedOut {
			r.Inconcl("C05 child watchdog: " + wk.Tail(d.Result.Stderr, 300))
			return
		}
		var cs c05case
		json.Unmarshal(d.Desc, &cs)
		r.Violationf(fmt.Sprintf("C05|path=%s|outcome=process-aborted", cs.Path), json.RawMessage(d.Desc), "hand-off ended the process (exit %d): %s", d.Result.Exit, firstPanicLine(d.Result.Stderr))
	}
	if wk.ReplayOne(c, "c05cases", func(idx int) interface{} { return c05extra{Big: idx >= 8000000} }, onDeath) {
		return
	}
	n := c.N(180, 6000)
	nbig := c.N(2, 16)
	type job struct {
		start, end int
		big        bool
	}
	var jobs []job
	parts := n / 30 // each link holds a 32 MiB bufio + a 32 MiB pipe for the life of the child: short-lived children
	for p := 0; p < parts; p++ {
		jobs = append(jobs, job{n * p / parts, n * (p + 1) / parts, false})
	}
	for p := 0; p < nbig; p++ {
		jobs = append(jobs, job{8000000 + p, 8000000 + p + 1, true})
	}
	wk.Parallel(len(jobs), 8, func(i int) {
		j := jobs[i]
		wk.RunBatch(c, "c05cases", j.start, j.end, c05extra{Big: j.big}, 40*time.Minute, onDeath)
	})
	r.Floor("dumps_over_an_existing_longer_file", 8)
	for _, p := range []string{"psync", "continue", "dump", "iocopy"} {
		r.Floor("path:"+p, 15)
	}
	r.Floor("resumes_observed", 5)
	r.Floor("second_resumes_observed", 2)
	r.Floor("bytes_checked", 50000000)
	r.Assume("payloads are position-coded so a slip, a duplicated block or a swap is located exactly; TLS links and the dead sendSyncCmd path are out of reach")
	_ = strings.ToLower
}
