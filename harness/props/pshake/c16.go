package pshake

import (
	"encoding/json"
	"fmt"
	"io/ioutil"
	"os"
	"path/filepath"
	"sort"
	"strings"
	"sync"
	"time"

	"github.com/alibaba/RedisShake/pkg/libs/log"
	run "github.com/alibaba/RedisShake/redis-shake"
	conf "github.com/alibaba/RedisShake/redis-shake/configure"

	"verif/harness/lib/miniredis"
	"verif/harness/lib/prng"
	"verif/harness/lib/rdbgen"
	"verif/harness/lib/reffilter"
	"verif/harness/lib/refrdb"
	"verif/harness/lib/wk"
)

func init() {
	wk.Register("C16", c16)
	wk.RegisterChild("c16runs", c16runsChild)
}

const (
	c16srcPw = "S3NT-src-c16"
	c16tgtPw = "S3NT-tgt-c16"
)

type c16key struct {
	DB     int    `json:"db"`
	Key    string `json:"key"`
	Kind   string `json:"kind"`
	Enc    string `json:"enc"`
	TTL    string `json:"ttl"`    // none | long | short
	Vanish string `json:"vanish"` // "" | before-dump | before-pttl
	Big    bool   `json:"big"`
	val    *rdbgen.Value
	expAt  int64
}

type c16source struct {
	ID       int      `json:"id"`
	Keys     []c16key `json:"keys"`
	Paging   string   `json:"paging"`
	KeyFile  bool     `json:"key_file"`
	srv      *miniredis.Server
	tcp      *miniredis.TCP
	scanEnds map[int]bool
	mu       sync.Mutex
}

type c16case struct {
	Index     int          `json:"index"`
	Sources   []*c16source `json:"sources"`
	ScanN     uint32       `json:"scan_key_number"`
	Threshold uint64       `json:"big_key_threshold"`
	KeyExists string       `json:"key_exists"`
	TargetDB  int          `json:"target_db"`
	Filter    string       `json:"filter"`
	PreExist  bool         `json:"preexisting_target_keys"`
}

func buildPaging(rng *prng.R, keys []string, mode string, scanN int) map[int64]miniredis.ScanPage {
	pages := map[int64]miniredis.ScanPage{}
	if len(keys) == 0 {
		pages[0] = miniredis.ScanPage{Next: 0}
		return pages
	}
	var chunks [][]string
	switch mode {
	case "single":
		chunks = [][]string{keys}
	case "by-count":
		for i := 0; i < len(keys); i += scanN {
			j := i + scanN
			if j > len(keys) {
				j = len(keys)
			}
			chunks = append(chunks, keys[i:j])
		}
	default: // "ragged": arbitrary page sizes incl. empty pages, page size != COUNT
		i := 0
		for i < len(keys) {
			n := rng.Pick(0, 1, 2, scanN-1, scanN, scanN+1, 2*scanN+1)
			if n < 0 {
				n = 0
			}
			if i+n > len(keys) {
				n = len(keys) - i
			}
			chunks = append(chunks, keys[i:i+n])
			i += n
		}
		if rng.Bool() {
			chunks = append(chunks, []string{}) // a final empty page
		}
	}
	cur := int64(0)
	for i, ch := range chunks {
		next := int64(0)
		if i < len(chunks)-1 {
			next = int64(rng.Range(1, 1<<30)) // arbitrary cursor chain ending in 0
			for {
				if _, used := pages[next]; !used && next != 0 {
					break
				}
				next++
			}
		}
		pages[cur] = miniredis.ScanPage{Next: next, Keys: ch}
		cur = next
	}
	return pages
}

func genC16(rng *prng.R, idx int) *c16case {
	c := &c16case{Index: idx, ScanN: uint32(rng.Pick(1, 2, 3, 5, 100)), KeyExists: rng.PickS("none", "rewrite", "rewrite"), TargetDB: rng.Pick(-1, -1, -1, 2),
		Filter: rng.PickS("", "", "", "keyblack", "keywhite", "dbblack", "dbwhite")}
	c.Threshold = uint64(rng.Pick(60, 120, 400, 50<<20, 50<<20))
	if c.KeyExists == "rewrite" && rng.Chance(1, 3) {
		c.PreExist = true
	}
	ns := rng.Range(2, 5)
	for s := 0; s < ns; s++ {
		src := &c16source{ID: s, Paging: rng.PickS("single", "by-count", "ragged", "ragged")}
		dbs := [][]int{{0}, {0, 1}, {0, 3, 5}, {2}, {1, 2}}[rng.Intn(5)]
		if idx%5 == 4 && s == 0 {
			src.KeyFile = true
			dbs = []int{0}
		}
		nk := rng.Pick(0, 1, 4, 9, 15, int(c.ScanN)*2, int(c.ScanN)*3)
		for k := 0; k < nk; k++ {
			kind := []string{"string", "list", "set", "zset", "hash", "intset"}[rng.Intn(6)]
			v := rdbgen.RandValue(rng, kind, rng.Pick(1, 2, 7, 30))
			encs := rdbgen.EncodingsFor(v)
			key := c16key{DB: dbs[rng.Intn(len(dbs))], Kind: v.Kind, Enc: encs[rng.Intn(len(encs))], val: v}
			pre := "k"
			if rng.Chance(1, 3) {
				pre = "skip:"
			}
			key.Key = fmt.Sprintf("%ss%d-%d-%s", pre, s, k, rng.Alpha(2, "abxy"))
			if src.KeyFile && k == 1 {
				// a key name longer than any reader's default buffer (a key file line of several kilobytes)
				key.Key += ":" + string(rng.Alpha(rng.Pick(4090, 5000, 20000), "abcdefghijklmnopqrstuvwxyz0123456789"))
			}
			key.TTL = rng.PickS("none", "none", "long")
			switch rng.Intn(12) {
			case 0:
				key.Vanish = "before-dump"
			case 1:
				key.Vanish = "before-pttl"
			}
			src.Keys = append(src.Keys, key)
		}
		c.Sources = append(c.Sources, src)
	}
	return c
}

func runC16(r resIface, c *c16case, rng *prng.R, scratch string) {
	ref := &reffilter.Config{}
	conf.Options = conf.Configuration{Id: "verif", SourceAuthType: "auth", TargetAuthType: "auth", SourcePasswordRaw: c16srcPw, TargetPasswordRaw: c16tgtPw, TargetType: conf.RedisTypeStandalone,
		ScanKeyNumber: c.ScanN, Qps: 5000, BigKeyThreshold: c.Threshold, KeyExists: c.KeyExists, TargetDB: c.TargetDB, TargetVersion: "5.0.7", TargetReplace: true, Metric: true,
		HttpProfile: -1, Type: conf.TypeRump}
	switch c.Filter {
	case "keyblack":
		conf.Options.FilterKeyBlacklist, ref.KeyBlack = []string{"skip:"}, []string{"skip:"}
	case "keywhite":
		conf.Options.FilterKeyWhitelist, ref.KeyWhite = []string{"k"}, []string{"k"}
	case "dbblack":
		conf.Options.FilterDBBlacklist, ref.DBBlack = []string{"1"}, []string{"1"}
	case "dbwhite":
		conf.Options.FilterDBWhitelist, ref.DBWhite = []string{"0", "2", "5"}, []string{"0", "2", "5"}
	}
	now := time.Now().UnixNano() / 1e6
	tgt := miniredis.NewServer()
	tgt.Password = c16tgtPw
	ttcp, err := tgt.ListenTCP()
	if err != nil {
		r.Inconcl("listen: " + err.Error())
		return
	}
	type exp struct {
		db    int
		key   string
		val   *rdbgen.Value
		expAt int64
		big   bool
		src   int
	}
	var want []exp
	keyFilePath := ""
	for _, s := range c.Sources {
		s.srv = miniredis.NewServer()
		s.srv.Password = c16srcPw
		s.srv.DumpVersion = 9
		byDB := map[int][]string{}
		var keepers []string // keys added by the harness; a key-file source must list them too
		var vanishBeforePTTL []c16key
		for i := range s.Keys {
			k := &s.Keys[i]
			byDB[k.DB] = append(byDB[k.DB], k.Key)
			w := &rdbgen.W{Rng: rng}
			t, _ := rdbgen.EncodeValue(w, k.val, k.Enc)
			payload := rdbgen.DumpPayload(t, w.Bytes(), 9)
			k.Big = uint64(len(payload)) >= c.Threshold
			if k.TTL == "long" {
				k.expAt = now + int64(rng.Pick(rng.Range(100000000, 1000000000), rng.Range(100000000, 1000000000), 3000000000, 5000000000, 700000000000)) // also beyond 2^31 and 2^32 ms
			}
			if k.Vanish != "before-dump" {
				e := s.srv.Put(k.DB, k.Key, miniredis.CloneValue(k.val), k.expAt)
				e.Payload = payload
			}
			if k.Vanish == "before-pttl" {
				vanishBeforePTTL = append(vanishBeforePTTL, *k)
			}
			if k.Vanish == "" && !ref.DBExcluded(k.DB) && !ref.KeyExcluded([]byte(k.Key)) {
				db := k.DB
				if c.TargetDB != -1 {
					db = c.TargetDB
				}
				want = append(want, exp{db, k.Key, k.val, k.expAt, k.Big, s.ID})
			}
		}
		// a database whose every key vanished before the scan still has to be listed by INFO keyspace: add a keeper
		s.srv.ScanPages = map[int]map[int64]miniredis.ScanPage{}
		for db, keys := range byDB {
			sort.Strings(keys)
			if s.srv.Raw(db, keys[0]) == nil {
				keeper := fmt.Sprintf("ks%d-keeper-db%d", s.ID, db)
				s.srv.Put(db, keeper, &rdbgen.Value{Kind: "string", Str: []byte("x")}, 0)
				keys = append(keys, keeper)
				keepers = append(keepers, keeper)
				if !ref.DBExcluded(db) && !ref.KeyExcluded([]byte(keeper)) {
					tdb := db
					if c.TargetDB != -1 {
						tdb = c.TargetDB
					}
					want = append(want, exp{tdb, keeper, &rdbgen.Value{Kind: "string", Str: []byte("x")}, 0, false, s.ID})
				}
			}
			s.srv.ScanPages[db] = buildPaging(rng, keys, s.Paging, int(c.ScanN))
		}
		if len(vanishBeforePTTL) > 0 {
			v := vanishBeforePTTL
			srv := s.srv
			done := map[string]bool{}
			s.srv.BeforeCmd = func(ss *miniredis.Session, name string, args [][]byte) {
				if name != "pttl" {
					return
				}
				// keys scripted to disappear between DUMP and PTTL go now (called under the server lock)
				for _, k := range v {
					if !done[k.Key] {
						done[k.Key] = true
						delete(srv.DBs[k.DB], k.Key)
					}
				}
			}
		}
		if s.KeyFile {
			var lines []string
			for _, k := range s.Keys {
				lines = append(lines, k.Key)
			}
			lines = append(lines, keepers...)
			lines = append(lines, "listed-but-nonexistent")
			if c.Index%2 == 0 && len(lines) > 3 {
				// a hand-edited key file: blank lines between the keys (an empty name is just another key that does not exist)
				var spaced []string
				for q, l := range lines {
					spaced = append(spaced, l)
					if q == 0 || q == len(lines)/2 {
						spaced = append(spaced, "")
					}
				}
				lines = spaced
				r.Count("key_files_with_blank_lines", 1)
			}
			keyFilePath = filepath.Join(scratch, fmt.Sprintf("c16-keys-%d.txt", c.Index))
			ioutil.WriteFile(keyFilePath, []byte(strings.Join(lines, "\n")+"\n"), 0644)
		}
		s.tcp, err = s.srv.ListenTCP()
		if err != nil {
			r.Inconcl("listen: " + err.Error())
			return
		}
		conf.Options.SourceAddressList = append(conf.Options.SourceAddressList, s.tcp.Addr)
	}
	if keyFilePath != "" {
		// the key file drives every source's scan: keep only the key-file source in this run
		for _, s := range c.Sources {
			if s.KeyFile {
				conf.Options.SourceAddressList = []string{s.tcp.Addr}
				var w2 []exp
				for _, w := range want {
					if w.src == s.ID {
						w2 = append(w2, w)
					}
				}
				want = w2
			}
		}
		conf.Options.ScanKeyFile = keyFilePath
		defer os.Remove(keyFilePath)
	}
	conf.Options.TargetAddressList = []string{ttcp.Addr}
	if c.PreExist {
		for i, w := range want {
			if i%3 == 0 {
				tgt.Put(w.db, w.key, &rdbgen.Value{Kind: w.val.Kind, Str: []byte("old"), List: [][]byte{[]byte("old-elem")}, Hash: [][2][]byte{{[]byte("old-f"), []byte("old-v")}}, ZSet: []rdbgen.ZEntry{{Member: []byte("old-m"), Score: 1}}}, 0)
			}
		}
	}
	if inChild {
		wk.ChildCase(c.Index, c)
	}
	t0 := time.Now()
	done := make(chan struct{})
	go func() { (&run.CmdRump{}).Main(); close(done) }()
	returned := false
	select {
	case <-done:
		returned = true
	case <-time.After(40 * time.Second):
	}
	elapsed := time.Since(t0).Milliseconds()
	nkeys := 0
	for _, s := range c.Sources {
		nkeys += len(s.Keys)
	}
	r.Case(fmt.Sprintf("scan%d|thr%d|%s|tdb%d|%s|pre%v|src%d", c.ScanN, c.Threshold, c.KeyExists, c.TargetDB, c.Filter, c.PreExist, len(c.Sources)))
	r.Count("runs", 1)
	r.Count("source_keys", int64(nkeys))
	r.Count("keys_expected", int64(len(want)))
	sig := func(o string) string {
		f := c.Filter
		if f == "" {
			f = "none"
		}
		return fmt.Sprintf("C16|outcome=%s|key_exists=%s|filter=%s|targetdb=%v", o, c.KeyExists, f, c.TargetDB != -1)
	}
	snap := tgt.Snapshot()
	total := 0
	for _, d := range snap {
		total += len(d)
	}
	for _, w := range want {
		e := snap[w.db][w.key]
		route := "restore"
		if w.big {
			route = "bigkey"
			r.Count("big_keys", 1)
		}
		if e == nil {
			// in another database?
			where := ""
			for db, d := range snap {
				if d[w.key] != nil {
					where = fmt.Sprintf(" (found in db %d)", db)
				}
			}
			o := "key-missing"
			if where != "" {
				o = "key-in-wrong-database"
			}
			if !returned {
				o = "run-does-not-terminate"
			}
			r.Violation(sig(o+"|route="+route), fmt.Sprintf("source %d key %q should be in target db %d%s; run returned=%v after %d ms", w.src, w.key, w.db, where, returned, elapsed), c)
			return
		}
		if !refrdb.Equal(e.Val, w.val) {
			o := "value-differs"
			if c.PreExist && w.big {
				o = "big-key-merged-into-existing"
			}
			r.Violation(sig(o+"|route="+route), fmt.Sprintf("key %q in db %d holds %s, source has %s", w.key, w.db, miniredis.Describe(e.Val), miniredis.Describe(w.val)), c)
			return
		}
		switch {
		case w.expAt == 0 && e.ExpireAt != 0:
			r.Violation(sig("ttl-invented|route="+route), fmt.Sprintf("key %q has no expiry at the source but expires at %d on the target", w.key, e.ExpireAt), c)
			return
		case w.expAt != 0 && e.ExpireAt == 0:
			r.Violation(sig("ttl-lost|route="+route), fmt.Sprintf("key %q expires at the source but not on the target", w.key), c)
			return
		case w.expAt != 0:
			if d := e.ExpireAt - w.expAt; d < -5 || d > elapsed+50 {
				r.Violation(sig("ttl-wrong|route="+route), fmt.Sprintf("key %q: target expiry differs from the source's by %d ms (run took %d ms)", w.key, d, elapsed), c)
				return
			}
		}
	}
	if total != len(want) {
		// something extra was written
		wantSet := map[string]bool{}
		for _, w := range want {
			wantSet[fmt.Sprintf("%d/%s", w.db, w.key)] = true
		}
		for db, d := range snap {
			for k := range d {
				if !wantSet[fmt.Sprintf("%d/%s", db, k)] {
					r.Violation(sig("unexpected-key-written"), fmt.Sprintf("target db %d holds %q which is filtered, vanished or belongs elsewhere", db, k), c)
					return
				}
			}
		}
	}
	if !returned {
		r.Violation(sig("run-does-not-terminate"), fmt.Sprintf("every expected key is on the target but CmdRump.Main has not returned %d ms after start (final scan cursors served)", elapsed), c)
	}
}

func c16runsChild(raw json.RawMessage, scratch string) {
	a := wk.ParseBatchArg(raw, nil)
	log.SetLevel(log.LEVEL_NONE)
	r := wk.ChildRes("C16")
	inChild = true
	base := prng.New(a.Seed).Split(0xC16)
	for i := a.Start; i < a.End; i++ {
		rng := base.At(uint64(i))
		c := genC16(rng, i)
		wk.ChildCase(i, c)
		runC16(r, c, rng, scratch)
		if i == a.Start {
			r.Sample(c)
		}
	}
	wk.ChildDone(r)
}

func c16(c *wk.Ctx) {
	r := c.R
	r.Rule = "run.CmdRump.Main() with 2-5 model sources and one model target per call: keyspaces over several databases in every value type/encoding, scripted SCAN pagination (single page, COUNT-sized, ragged with empty pages and page size != COUNT, arbitrary cursor chains ending in 0), keys scripted to vanish before DUMP or between DUMP and PTTL, TTL none/long, big_key_threshold below/above payload sizes, key_exists none/rewrite (with pre-existing target keys), target.db, db/key filters, key-file driven scans (incl. a listed but non-existent key); after Main returns the target must hold exactly the expected keys with the source value and remaining TTL in the right database, and Main must return. distinct = (scan.key_number, threshold, policy, target.db, filter, pre-existing, #sources)"
	onDeath := func(d wk.Death) {
		if d.Result.TimedOut {
			r.Inconcl("C16 child watchdog: " + wk.Tail(d.Result.Stderr, 300))
			return
		}
		var cs c16case
		json.Unmarshal(d.Desc, &cs)
		r.Count("runs", 1)
		r.Violationf(fmt.Sprintf("C16|outcome=process-aborted|key_exists=%s|preexisting=%v", cs.KeyExists, cs.PreExist), json.RawMessage(d.Desc), "rump ended the process (exit %d): %s", d.Result.Exit, firstPanicLine(d.Result.Stderr))
	}
	if wk.ReplayOne(c, "c16runs", nil, onDeath) {
		return
	}
	n := c.N(96, 1600)
	parts := 12
	if n > 480 {
		parts = n / 40 // every finished rump run leaves goroutines behind (QoS ticker, scanners): keep children short-lived
	}
	wk.Parallel(parts, 12, func(p int) {
		wk.RunBatch(c, "c16runs", n*p/parts, n*(p+1)/parts, nil, 40*time.Minute, onDeath)
	})
	r.Floor("runs", 60)
	r.Floor("keys_expected", 500)
	r.Floor("big_keys", 30)
	r.Assume("model source answers SCAN from scripted pages, DUMP with payloads built by lib/rdbgen in the key's physical encoding, PTTL from its clock; aliyun/tencent scanners and cluster targets are out of reach; pttl == 0 is not generated")
}
