package pshake

import (
	"bufio"
	"encoding/json"
	"fmt"
	"io"
	"strconv"
	"strings"
	"time"

	"golang.org/x/sync/semaphore"

	"github.com/alibaba/RedisShake/pkg/libs/log"
	"github.com/alibaba/RedisShake/redis-shake/checkpoint"
	"github.com/alibaba/RedisShake/redis-shake/dbSync"
	"github.com/alibaba/RedisShake/redis-shake/dbSync/slot"

	"verif/harness/lib/miniredis"
	"verif/harness/lib/prng"
	"verif/harness/lib/rdbgen"
	"verif/harness/lib/wk"
)

// Writer/reader agreement stage of C14: the target states of the other stage are written "the way the sender writes
// them" by the harness; here the real incremental sender writes them - multi-database streams with transactions and
// SELECTs inside transactions, resume on - and the real LoadCheckpoint then reads the result. It must return the run id
// the sender was given, the offset right after the last forwarded command and the database that command ran in.

func init() { wk.RegisterChild("c14agree", c14agreeChild) }

type c14agreeCase struct {
	Index  int      `json:"index"`
	N      int      `json:"commands"`
	DBs    []int    `json:"source_dbs"`
	Sender uint     `json:"sender_count"`
	Tail   []string `json:"stream_tail,omitempty"`
	Resume int      `json:"resumed_in_db,omitempty"` // the sender starts in this database, which holds the previous run's checkpoint
	OldRun string   `json:"previous_run_id,omitempty"`
}

func c14agreeChild(raw json.RawMessage, scratch string) {
	a := wk.ParseBatchArg(raw, nil)
	log.SetLevel(log.LEVEL_NONE)
	r := wk.ChildRes("C14")
	inChild = true
	base := prng.New(a.Seed).Split(0xC14A)
	tcp, lerr := miniredis.NewServer().ListenTCP()
	if lerr != nil {
		r.Inconcl("cannot listen: " + lerr.Error())
		wk.ChildDone(r)
		return
	}
	defer tcp.Close()
	for i := a.Start; i < a.End; i++ {
		rng := base.At(uint64(i))
		cfg := e2eCfg{Resume: true, TargetDB: -1, SenderCount: uint(rng.Pick(1, 3, 8, 1024)), SenderSize: 1 << 30, Parallel: 2}
		cfg.apply()
		cs := &c14agreeCase{Index: i, N: rng.Pick(8, 25, 60), DBs: [][]int{{0, 1}, {0, 1, 2, 3}, {2, 0, 15}}[rng.Intn(3)], Sender: cfg.SenderCount}
		startDB := -1
		if i%2 == 1 {
			// a resumed start that ended in a full resync: the checkpoint of the previous run (other run id, old offset)
			// sits in the database the sender starts in, and the source announced a new run id
			cs.Resume, cs.OldRun = cs.DBs[len(cs.DBs)-1], "0ld0ld0ld0ld0ld0ld0ld0ld0ld0ld0ld0ld0ld0"
			startDB = cs.Resume
		}
		cmds := genStream(rng, streamOpts{N: cs.N, DBs: cs.DBs, Modelled: true, Tx: true, Keys: 4, StartDB: startDB})
		if startDB < 0 {
			startDB = 0
		}
		if i%3 == 0 {
			// the stream ends with a transaction that switches to a database nothing was written to before: the last
			// batch starts in a database that already has its run id and ends in one that has none yet
			fresh := 7 + i%4
			last := cmds[len(cmds)-1]
			tail := []srcCmd{{Name: "MULTI", DB: last.DB}, {Name: "SET", Args: [][]byte{[]byte("key0"), []byte("in-old-db")}, DB: last.DB, InTx: true},
				{Name: "SELECT", Args: [][]byte{[]byte(strconv.Itoa(fresh))}, DB: fresh, InTx: true},
				{Name: "SET", Args: [][]byte{[]byte("key1"), []byte("in-fresh-db")}, DB: fresh, InTx: true}, {Name: "EXEC", DB: fresh}}
			pos := last.End
			for k := range tail {
				pos += int64(len(encodeCmd(&tail[k])))
				tail[k].End = pos
			}
			cmds = append(cmds, tail...)
			r.Count("agreement_streams_ending_in_a_fresh_database_inside_a_transaction", 1)
		}
		for k := len(cmds) - 6; k < len(cmds); k++ {
			if k >= 0 {
				cs.Tail = append(cs.Tail, cmds[k].String())
			}
		}
		wk.ChildCase(i, cs)
		source := fmt.Sprintf("10.14.%d.%d:6379", i/250%250, i%250)
		srv := miniredis.NewServer()
		if cs.OldRun != "" {
			srv.Put(cs.Resume, ckptKey, &rdbgen.Value{Kind: "hash", Hash: [][2][]byte{{[]byte(source + "-runid"), []byte(cs.OldRun)},
				{[]byte(source + "-version"), []byte("1")}, {[]byte(source + "-offset"), []byte("4000")}}}, 0)
			r.Count("agreement_streams_resumed_over_an_older_checkpoint", 1)
		}
		conn := srv.NewConn()
		conn.BlockReceive = true
		pr, pw := io.Pipe()
		node := &slot.SyncNode{Id: 1400 + i%500, Source: source, Target: []string{tcp.Addr}, SlotLeftBoundary: -1, SlotRightBoundary: -1}
		ds := dbSync.NewDbSyncer(node, -1, semaphore.NewWeighted(1))
		const startOffset = 5000
		ds.VerifRunIncr(bufio.NewReaderSize(pr, 1<<16), conn, startDB, e2eRunID, startOffset, cfg.SenderCount, 65535)
		go pw.Write(streamBytes(cmds))
		want, _ := stripPings(expectedForward(cmds, &cfg, startDB))
		ends := allowedEndsFrom(cmds, &cfg, startDB)
		applied := func() int {
			srv.Mu.Lock()
			lg := append([]miniredis.Logged{}, srv.Log...)
			srv.Mu.Unlock()
			got, _, _ := appliedCommands(lg, source, conn.Sess.ID)
			g, _ := stripPings(got)
			return len(g)
		}
		if !waitUntil(8*time.Second, func() bool { return applied() >= len(want) }) {
			r.Inconcl(fmt.Sprintf("writer/reader agreement: only %d of %d commands reached the target", applied(), len(want)))
			continue
		}
		time.Sleep(600 * time.Millisecond) // one more flush period: the last batch and its checkpoint are in
		// the newest legitimate checkpoint position: the end of the last forwarded command (ping and select included)
		var lastEnd int64 = -1
		lastDB := -1
		for end, info := range ends {
			if end > lastEnd {
				lastEnd, lastDB = end, info.db
			}
		}
		tcp.SetServer(srv)
		run, off, db, err := checkpoint.LoadCheckpoint(node.Id, source, []string{tcp.Addr}, "auth", "", ckptKey, false, false)
		r.Case(fmt.Sprintf("agree|dbs%d|sc%d|n%d", len(cs.DBs), cfg.SenderCount, cs.N))
		r.Count("writer_reader_agreement_streams", 1)
		rep := map[string]interface{}{"case": cs, "returned": fmt.Sprintf("runid=%q offset=%d db=%d err=%v", run, off, db, err)}
		switch {
		case len(want) == 0:
		case err != nil:
			o := "unexpected-error"
			if strings.Contains(err.Error(), "version") {
				o = "own-checkpoint-refused-as-old-version"
			}
			r.Violationf("C14|writer-reader|outcome="+o, rep, "LoadCheckpoint refused what the incremental sender of the same build wrote: %v", err)
		case off == -1:
			r.Violationf("C14|writer-reader|outcome=checkpoint-not-found", rep, "the sender forwarded %d commands with resume on, LoadCheckpoint found no checkpoint", len(want))
		case run != e2eRunID:
			r.Violationf("C14|writer-reader|outcome=wrong-runid", rep, "LoadCheckpoint returned run id %q, the sender was given %q", run, e2eRunID)
		default:
			// a trailing PING or SELECT that travels alone carries no checkpoint: the newest checkpoint may sit anywhere
			// from the end of the last forwarded data command to the end of the last forwarded command
			lastData := want[len(want)-1].End
			info, ok := ends[off-startOffset]
			if !ok || off-startOffset < lastData || off-startOffset > lastEnd || info.db != db {
				r.Violationf("C14|writer-reader|outcome=not-the-newest-checkpoint", rep, "LoadCheckpoint returned offset %d (stream position %d) in db %d; the last forwarded data command ends at stream position %d, the last forwarded command at %d (db %d)", off, off-startOffset, db, lastData, lastEnd, lastDB)
			}
		}
		if i == a.Start {
			r.Sample(rep)
		}
	}
	wk.ChildDone(r)
}
