package pshake

import (
	"encoding/json"
	"fmt"
	"os"
	"runtime"
	"sort"
	"strconv"
	"strings"
	"time"

	"github.com/alibaba/RedisShake/pkg/libs/log"

	"verif/harness/lib/fakesource"
	"verif/harness/lib/miniredis"
	"verif/harness/lib/prng"
	"verif/harness/lib/rdbgen"
	"verif/harness/lib/wk"
)

func init() {
	wk.Register("C04", c04)
	wk.RegisterChild("c04hist", c04histChild)
}

type c04case struct {
	Index       int      `json:"index"`
	Cfg         e2eCfg   `json:"config"`
	N           int      `json:"commands"`
	DBs         []int    `json:"source_dbs"`
	Plan        string   `json:"arrival_plan"`
	GapMs       int      `json:"gap_ms,omitempty"`
	StartOffset int64    `json:"start_offset"`
	Stream      []string `json:"stream_head,omitempty"`
	Cut         int      `json:"cut_byte,omitempty"`
	SourceDrop  int64    `json:"source_link_drops_at_stream_byte,omitempty"`
}

// applyRef applies source commands to a model the way Redis would (the reference history).
func applyRef(srv *miniredis.Server, cmds []srcCmd, cfg *e2eCfg, upTo int64) {
	ss := srv.NewSession()
	ref := cfg.ref()
	cur := 0
	for _, c := range cmds {
		name := strings.ToLower(c.Name)
		if name == "select" {
			n, _ := strconv.Atoi(string(c.Args[0]))
			cur = n
			continue
		}
		if c.End > upTo {
			break
		}
		if name == "multi" || name == "exec" || name == "ping" {
			continue
		}
		if ref.DBExcluded(cur) || ref.CommandExcluded(name) {
			continue
		}
		args, dropped := ref.Rewrite(name, c.Args)
		if dropped {
			continue
		}
		eff := cur
		if cfg.TargetDB != -1 {
			eff = cfg.TargetDB // everything lands in the fixed target database
		}
		if ss.DB != eff {
			ss.Do([][]byte{[]byte("select"), []byte(strconv.Itoa(eff))})
		}
		ss.Do(append([][]byte{[]byte(name)}, args...))
	}
}

type ckpt struct {
	found   bool
	offset  int64
	db      int
	runid   string
	version string
}

// readCheckpoint finds the newest checkpoint of `own` in a model state.
func readCheckpoint(snap map[int]map[string]*miniredis.Entry, own string) ckpt {
	best := ckpt{offset: -1}
	for db, keys := range snap {
		e := keys[ckptKey]
		if e == nil || e.Val.Kind != "hash" {
			continue
		}
		m := map[string]string{}
		for _, p := range e.Val.Hash {
			m[string(p[0])] = string(p[1])
		}
		o, err := strconv.ParseInt(m[own+"-offset"], 10, 64)
		if err != nil {
			continue
		}
		if o > best.offset {
			best = ckpt{found: true, offset: o, db: db, runid: m[own+"-runid"], version: m[own+"-version"]}
		}
	}
	return best
}

func stripCheckpoints(snap map[int]map[string]*miniredis.Entry) map[int]map[string]*miniredis.Entry {
	out := map[int]map[string]*miniredis.Entry{}
	for db, keys := range snap {
		for k, e := range keys {
			if k == ckptKey {
				continue
			}
			if out[db] == nil {
				out[db] = map[string]*miniredis.Entry{}
			}
			out[db][k] = e
		}
	}
	return out
}

func loadState(snap map[int]map[string]*miniredis.Entry) *miniredis.Server {
	srv := miniredis.NewServer()
	for db, keys := range snap {
		for k, e := range keys {
			srv.Put(db, k, miniredis.CloneValue(e.Val), e.ExpireAt)
		}
	}
	return srv
}

type endInfo struct {
	db   int
	name string
}

// allowedEnds: stream positions a checkpoint may legitimately carry: the end of every command the tool forwards
// (data commands, PINGs and SELECTs of databases that pass the filter), mapped to the database it ran in.
func allowedEnds(cmds []srcCmd, cfg *e2eCfg) map[int64]endInfo {
	return allowedEndsFrom(cmds, cfg, 0)
}

func allowedEndsFrom(cmds []srcCmd, cfg *e2eCfg, startDB int) map[int64]endInfo {
	ref := cfg.ref()
	out := map[int64]endInfo{}
	cur := startDB
	for _, c := range cmds {
		name := strings.ToLower(c.Name)
		eff := func() int {
			if cfg.TargetDB != -1 {
				return cfg.TargetDB
			}
			return cur
		}
		if name == "select" {
			n, _ := strconv.Atoi(string(c.Args[0]))
			cur = n
			if !ref.DBExcluded(cur) {
				out[c.End] = endInfo{eff(), name}
			}
			continue
		}
		if name == "multi" || name == "exec" || ref.DBExcluded(cur) {
			continue
		}
		if name != "ping" && ref.CommandExcluded(name) {
			continue
		}
		if _, dropped := ref.Rewrite(name, c.Args); dropped {
			continue
		}
		out[c.End] = endInfo{eff(), name}
	}
	return out
}

func runC04(r resIface, c *c04case, rng *prng.R, nRestarts int) {
	cmds := genStream(rng, streamOpts{N: c.N, DBs: c.DBs, Modelled: true, Tx: true, Keys: 4, KeyPrefix: prefixesFor(&c.Cfg), StartDB: -1, Sentinel: true, LFs: true})
	for i := 0; i < len(cmds) && i < 10; i++ {
		c.Stream = append(c.Stream, cmds[i].String())
	}
	if inChild {
		wk.ChildCase(c.Index, c)
	}
	rdbKeys := []*rdbgen.KeySpec{{DB: 0, Key: []byte("from-rdb-1"), Val: &rdbgen.Value{Kind: "string", Str: []byte("r1")}, Enc: "raw"},
		{DB: 1, Key: []byte("from-rdb-2"), Val: &rdbgen.Value{Kind: "list", List: [][]byte{[]byte("a"), []byte("b")}}, Enc: "linked"}}
	sc := fakesource.Script{RunID: e2eRunID, StartOffset: c.StartOffset, RDB: minimalRDB(rng, rdbKeys)}
	e, err := startE2E(&c.Cfg, sc, nil, true)
	if err != nil {
		r.Inconcl("startE2E: " + err.Error())
		return
	}
	own := e.Src.Addr
	stream := streamBytes(cmds)
	ends := allowedEnds(cmds, &c.Cfg)
	want := expectedForward(cmds, &c.Cfg, 0)
	wantData, _ := stripPings(want)
	if c.SourceDrop > 0 {
		// the source link breaks once (mid-stream, usually mid-command); the tool comes back with PSYNC/CONTINUE
		// and every checkpoint written afterwards must still name the true stream position
		c.SourceDrop = 1 + c.SourceDrop%int64(len(stream)-1)
		e.Src.DropAfter(c.SourceDrop)
		if inChild {
			wk.ChildCase(c.Index, c)
		}
	}
	lastAt := feedPlan(c.Plan, time.Duration(c.GapMs)*time.Millisecond, cmds, e.Src.Feed)
	count := func() int {
		lg := e.DataLog()
		got, _, _ := appliedCommands(lg, own, incrConnOf(lg))
		g, _ := stripPings(got)
		return len(g)
	}
	patience := 6*time.Second + time.Duration(c.N)*2*time.Millisecond
	if c.SourceDrop > 0 {
		patience += 6 * time.Second // the tool waits a second before it reconnects
	}
	complete := waitUntil(patience, func() bool { return count() >= len(wantData) })
	if !complete {
		// delivery in bounded time is C03's property; here a slow (loaded) machine only gets more patience
		complete = waitUntil(90*time.Second, func() bool { return count() >= len(wantData) })
		r.Count("histories_that_needed_extra_patience", 1)
	}
	if c.SourceDrop > 0 {
		// a drop near the end of the stream may come after the last forwarded command: the tool re-attaches a second later
		waitUntil(10*time.Second, func() bool { _, ps := e.Src.Snapshot(); return len(ps) >= 2 })
	}
	time.Sleep(50 * time.Millisecond)
	sig := func(o string) string { return fmt.Sprintf("C04|outcome=%s|config=%s", o, cfgClass(&c.Cfg)) }
	if !complete {
		r.Violation(sig("run-incomplete"), fmt.Sprintf("only %d of %d forwarded commands reached the target %.1fs after the last byte", count(), len(wantData), time.Since(lastAt).Seconds()), c)
		return
	}
	lg := e.DataLog()
	ic := incrConnOf(lg)
	B := e.ConnBytes(ic)
	r.Count("histories", 1)
	r.Count("target_stream_bytes", int64(len(B)))
	if c.SourceDrop > 0 {
		_, ps := e.Src.Snapshot()
		r.Count("histories_with_a_source_reconnect", 1)
		if len(ps) < 2 {
			r.Inconcl(fmt.Sprintf("source link was dropped at stream byte %d but the tool never reconnected", c.SourceDrop))
			return
		}
	}
	// state after the full phase = everything applied on other connections
	base := miniredis.NewServer()
	for _, k := range rdbKeys {
		if c.Cfg.ref().DBExcluded(int(k.DB)) || c.Cfg.ref().KeyExcluded(k.Key) {
			continue // the full phase applies the same filters
		}
		bdb := int(k.DB)
		if c.Cfg.TargetDB != -1 {
			bdb = c.Cfg.TargetDB
		}
		base.Put(bdb, string(k.Key), miniredis.CloneValue(k.Val), 0)
	}
	S0 := base.Snapshot()
	// final state of the uninterrupted run vs. the reference history
	refFinal := loadState(S0)
	applyRef(refFinal, cmds, &c.Cfg, 1<<62)
	finalRef := stripCheckpoints(refFinal.Snapshot())
	if d := miniredis.DiffKeyspaces(stripCheckpoints(e.Srv.Snapshot()), finalRef, false); d != "" {
		r.Violation(sig("uninterrupted-run-diverges"), "target after the uninterrupted run differs from the source history: "+d, c)
		return
	}
	// ---- every cut position
	cuts := cutPositions(B, rng)
	r.Count("cut_states_checked", int64(len(cuts)))
	type restartPoint struct {
		k  int
		ck ckpt
	}
	var points []restartPoint
	seenOffsets := map[int64]bool{}
	for _, k := range cuts {
		srv := loadState(S0)
		srv.Replay(B[:k])
		snap := srv.Snapshot()
		ck := readCheckpoint(snap, own)
		data := stripCheckpoints(snap)
		cc := *c
		cc.Cut = k
		if !ck.found {
			if d := miniredis.DiffKeyspaces(data, S0, false); d != "" {
				r.Violation(sig("data-without-checkpoint"), fmt.Sprintf("cut after byte %d of the target stream: no checkpoint is stored yet but data was applied: %s", k, d), &cc)
				return
			}
			continue
		}
		rel := ck.offset - c.StartOffset
		info, ok := ends[rel]
		if !ok {
			r.Violation(sig("offset-not-at-command-end"), fmt.Sprintf("cut %d: stored offset %d (stream position %d) is not the position right after a forwarded command", k, ck.offset, rel), &cc)
			return
		}
		if info.db != ck.db {
			r.Violation(sig("checkpoint-in-wrong-database"), fmt.Sprintf("cut %d: checkpoint with offset %d is stored in db %d but the group's last command (%s) ran in db %d", k, ck.offset, ck.db, info.name, info.db), &cc)
			return
		}
		if ck.runid != e2eRunID || ck.version != "1" {
			// run id and version are written once per database: they may be missing only if this db never got them
			r.Violation(sig("checkpoint-incomplete"), fmt.Sprintf("cut %d: newest checkpoint (db %d, offset %d) has runid=%q version=%q", k, ck.db, ck.offset, ck.runid, ck.version), &cc)
			return
		}
		refSrv := loadState(S0)
		applyRef(refSrv, cmds, &c.Cfg, rel)
		if d := miniredis.DiffKeyspaces(data, stripCheckpoints(refSrv.Snapshot()), false); d != "" {
			r.Violation(sig("data-not-equal-history-up-to-offset"), fmt.Sprintf("cut after byte %d: stored offset %d (after %q) but the target data differs from the source history up to it: %s", k, ck.offset, info.name, d), &cc)
			return
		}
		if !seenOffsets[ck.offset] {
			seenOffsets[ck.offset] = true
			points = append(points, restartPoint{k, ck})
		}
	}
	r.Count("distinct_checkpoints_seen", int64(len(points)))
	r.Case(fmt.Sprintf("hist|%s|sc%d|%s|cuts%d|ckpts%d", cfgClass(&c.Cfg), c.Cfg.SenderCount, c.Plan, len(cuts)/50, len(points)))
	// ---- real restarts from sampled cut states
	if len(points) == 0 {
		return
	}
	perm := rng.Perm(len(points))
	if len(perm) > nRestarts {
		perm = perm[:nRestarts]
	}
	for _, pi := range perm {
		p := points[pi]
		srv := loadState(S0)
		srv.Replay(B[:p.k])
		cc := *c
		cc.Cut = p.k
		// another source syncs into the same target: its checkpoint fields share the hash and must survive our restart
		foreign := plantForeignCheckpoint(srv)
		sc2 := fakesource.Script{RunID: e2eRunID, StartOffset: c.StartOffset, RDB: minimalRDB(rng, nil), HonorFirst: true}
		// the checkpoint hash is keyed by source address and the restarted fake source listens on a fresh port:
		// rewrite the stored fields to the new address before the tool reads them.
		e2, err := startE2E(&c.Cfg, sc2, srv, false, func(x *e2eRun) {
			x.Src.Feed(stream)
			renameSource(srv, own, x.Src.Addr)
		})
		if err != nil {
			r.Inconcl("restart: " + err.Error())
			return
		}
		waitUntil(60*time.Second, func() bool { _, ps := e2.Src.Snapshot(); return len(ps) > 0 })
		reached := func() bool {
			return miniredis.DiffKeyspaces(stripCheckpoints(srv.Snapshot()), finalRef, false) == ""
		}
		ok := waitUntil(8*time.Second, reached)
		if !ok {
			ok = waitUntil(60*time.Second, reached) // a loaded machine gets more patience before "lost" is concluded
			r.Count("restarts_that_needed_extra_patience", 1)
		}
		if ok {
			time.Sleep(30 * time.Millisecond) // a command applied twice would show up now
			ok = miniredis.DiffKeyspaces(stripCheckpoints(srv.Snapshot()), finalRef, false) == ""
		}
		_, ps := e2.Src.Snapshot()
		r.Count("restarts", 1)
		if lost := foreignCheckpointLost(srv, foreign); lost != "" && len(ps) > 0 {
			r.Violation(sig("restart-erases-another-sources-checkpoint"), fmt.Sprintf("restart from cut %d: %s; that source would restart from an older position (or from scratch) and apply commands twice", p.k, lost), &cc)
			return
		}
		if len(ps) == 0 {
			if os.Getenv("VERIF_DEBUG") != "" {
				buf := make([]byte, 1<<20)
				n := runtime.Stack(buf, true)
				os.Stderr.Write(buf[:n])
			}
			r.Violation(sig("restart-no-psync"), fmt.Sprintf("restart from cut %d: the tool never sent PSYNC", p.k), &cc)
			return
		}
		if ps[0].RunID != e2eRunID || ps[0].Offset != p.ck.offset+1 {
			r.Violation(sig("restart-psync-wrong"), fmt.Sprintf("restart from cut %d (checkpoint offset %d, db %d): tool sent PSYNC %q %d, expected %q %d", p.k, p.ck.offset, p.ck.db, ps[0].RunID, ps[0].Offset, e2eRunID, p.ck.offset+1), &cc)
			return
		}
		if !ok {
			d := miniredis.DiffKeyspaces(stripCheckpoints(srv.Snapshot()), finalRef, false)
			kind := "restart-diverges"
			if strings.Contains(d, "only in the second") {
				kind = "restart-loses-commands"
			}
			r.Violation(sig(kind), fmt.Sprintf("restart from cut %d (offset %d, db %d) does not end with the uninterrupted run's dataset: %s", p.k, p.ck.offset, p.ck.db, d), &cc)
			return
		}
		// the checkpoints written *after* the resumed start obey the same rules as those before it: the position kept
		// after +CONTINUE is the one the checkpoint named, so the newest one again sits right after a forwarded command
		// (data and checkpoint travel in one transaction: it is there as soon as the data is)
		ck2 := readCheckpoint(srv.Snapshot(), e2.Src.Addr)
		r.Count("checkpoints_checked_after_a_restart", 1)
		rel2 := ck2.offset - c.StartOffset
		info2, atEnd := ends[rel2]
		switch {
		case !ck2.found:
			r.Violation(sig("restart-checkpoint-lost"), fmt.Sprintf("restart from cut %d (checkpoint offset %d): no checkpoint of this source is stored after the restarted run", p.k, p.ck.offset), &cc)
			return
		case !atEnd:
			r.Violation(sig("restart-checkpoint-offset-not-at-command-end"), fmt.Sprintf("restart from cut %d (checkpoint offset %d): the newest checkpoint after the restarted run has offset %d (stream position %d), which is not the position right after a forwarded command", p.k, p.ck.offset, ck2.offset, rel2), &cc)
			return
		case info2.db != ck2.db:
			r.Violation(sig("restart-checkpoint-in-wrong-database"), fmt.Sprintf("restart from cut %d: checkpoint with offset %d is stored in db %d but the group's last command (%s) ran in db %d", p.k, ck2.offset, ck2.db, info2.name, info2.db), &cc)
			return
		case ck2.offset < p.ck.offset || ck2.runid != e2eRunID:
			r.Violation(sig("restart-checkpoint-stale"), fmt.Sprintf("restart from cut %d (checkpoint offset %d): newest checkpoint afterwards is (%q, %d)", p.k, p.ck.offset, ck2.runid, ck2.offset), &cc)
			return
		}
	}
}

const foreignSource = "10.200.0.9:6379"

// plantForeignCheckpoint adds another source's checkpoint (run id, version, offset) to every database that holds the
// checkpoint hash, and to one that does not; returns what was planted as "db/field" -> value.
func plantForeignCheckpoint(srv *miniredis.Server) map[string]string {
	srv.Mu.Lock()
	defer srv.Mu.Unlock()
	out := map[string]string{}
	dbs := []int{9}
	for db, keys := range srv.DBs {
		if e := keys[ckptKey]; e != nil && e.Val.Kind == "hash" {
			dbs = append(dbs, db)
		}
	}
	for _, db := range dbs {
		if srv.DBs[db] == nil {
			srv.DBs[db] = map[string]*miniredis.Entry{}
		}
		e := srv.DBs[db][ckptKey]
		if e == nil {
			e = &miniredis.Entry{Val: &rdbgen.Value{Kind: "hash"}}
			srv.DBs[db][ckptKey] = e
		}
		for f, v := range map[string]string{"-runid": "ffffffffffffffffffffffffffffffffffffffff", "-offset": strconv.Itoa(1000 + db), "-version": "1"} {
			e.Val.Hash = append(e.Val.Hash, [2][]byte{[]byte(foreignSource + f), []byte(v)})
			out[fmt.Sprintf("%d/%s%s", db, foreignSource, f)] = v
		}
	}
	return out
}

func foreignCheckpointLost(srv *miniredis.Server, planted map[string]string) string {
	srv.Mu.Lock()
	defer srv.Mu.Unlock()
	for k, v := range planted {
		var db int
		var field string
		fmt.Sscanf(k, "%d/%s", &db, &field)
		found := false
		if e := srv.DBs[db][ckptKey]; e != nil && e.Val.Kind == "hash" {
			for _, p := range e.Val.Hash {
				if string(p[0]) == field && string(p[1]) == v {
					found = true
				}
			}
		}
		if !found {
			return fmt.Sprintf("checkpoint field %q of another source (db %d) is gone or changed after the restart", field, db)
		}
	}
	return ""
}

// renameSource: the checkpoint fields are keyed by the source address; a restarted fake source has a new port.
func renameSource(srv *miniredis.Server, from, to string) {
	srv.Mu.Lock()
	defer srv.Mu.Unlock()
	for _, keys := range srv.DBs {
		e := keys[ckptKey]
		if e == nil || e.Val.Kind != "hash" {
			continue
		}
		for i := range e.Val.Hash {
			f := string(e.Val.Hash[i][0])
			if strings.HasPrefix(f, from+"-") {
				e.Val.Hash[i][0] = []byte(to + strings.TrimPrefix(f, from))
			}
		}
	}
}

// cutPositions: every command boundary of the target stream plus every byte inside one command in eight.
func cutPositions(B []byte, rng *prng.R) []int {
	set := map[int]bool{0: true, len(B): true}
	// command boundaries: parse RESP arrays
	pos := 0
	n := 0
	for pos < len(B) {
		end := respCommandEnd(B, pos)
		if end < 0 {
			break
		}
		set[end] = true
		if n%8 == 3 {
			for k := pos + 1; k < end; k++ {
				set[k] = true
			}
		} else {
			set[pos+(end-pos)/2] = true
			set[end-1] = true
		}
		pos = end
		n++
	}
	var out []int
	for k := range set {
		out = append(out, k)
	}
	sort.Ints(out)
	return out
}

func respCommandEnd(b []byte, pos int) int {
	if pos >= len(b) || b[pos] != '*' {
		return -1
	}
	i := pos
	line := func() (string, bool) {
		j := i
		for j+1 < len(b) && !(b[j] == '\r' && b[j+1] == '\n') {
			j++
		}
		if j+1 >= len(b) {
			return "", false
		}
		s := string(b[i:j])
		i = j + 2
		return s, true
	}
	l, ok := line()
	if !ok {
		return -1
	}
	n, err := strconv.Atoi(l[1:])
	if err != nil {
		return -1
	}
	for k := 0; k < n; k++ {
		l, ok := line()
		if !ok || len(l) == 0 || l[0] != '$' {
			return -1
		}
		m, err := strconv.Atoi(l[1:])
		if err != nil || i+m+2 > len(b) {
			return -1
		}
		i += m + 2
	}
	return i
}

type c04extra struct {
	CfgIdx int `json:"cfg"`
}

func genC04cfg(rng *prng.R, idx int) e2eCfg {
	c := e2eCfg{Resume: true, TargetDB: -1, SenderCount: uint([]int{1, 2, 5, 1024}[idx%10%4]), SenderSize: uint64(rng.Pick(64, 65535, 1<<30-1)), Parallel: 2, Metric: true}
	switch idx % 10 / 4 % 4 {
	case 1:
		c.DBBlack = []string{"1"}
	case 2:
		c.KeyBlack = []string{"no:"}
	case 3:
		c.DBWhite = []string{"0", "2", "3"}
	}
	switch idx % 10 {
	case 8: // a fixed target database that the database list itself excludes on the source side
		c.TargetDB = 5
		c.DBBlack, c.DBWhite, c.KeyBlack = nil, []string{"0", "2"}, nil
	case 9:
		c.TargetDB = 1
		c.DBBlack, c.DBWhite, c.KeyBlack = []string{"1"}, nil, nil
	}
	return c
}

func c04histChild(raw json.RawMessage, scratch string) {
	var ex c04extra
	a := wk.ParseBatchArg(raw, &ex)
	log.SetLevel(log.LEVEL_NONE)
	if os.Getenv("VERIF_DEBUG") != "" {
		log.SetLevel(log.LEVEL_INFO)
	}
	r := wk.ChildRes("C04")
	inChild = true
	base := prng.New(a.Seed).Split(0xC04)
	cfg := genC04cfg(base.At(uint64(1000000+ex.CfgIdx)), ex.CfgIdx)
	cfg.apply()
	restarts := 6
	if a.Tier == "thorough" {
		restarts = 40
	}
	for i := a.Start; i < a.End; i++ {
		rng := base.At(uint64(i))
		c := &c04case{Index: i, Cfg: cfg, N: rng.Pick(20, 60, 150), Plan: rng.PickS("all", "per-command", "gaps", "gaps", "split-bytes"), StartOffset: int64(rng.Pick(0, 1, 5000, 1<<31-3, 1<<32-300, 1<<40))}
		c.DBs = [][]int{{0}, {0, 1}, {0, 1, 2, 3}, {2, 0}}[rng.Intn(4)]
		if c.Plan == "gaps" {
			c.GapMs = 480 + 5*rng.Intn(9)
		}
		if i%2 == 1 {
			c.SourceDrop = int64(rng.Range(1, 1<<30)) // reduced modulo the stream length once that is known
		}
		if a.Tier == "thorough" && c.N <= 20 {
			restarts = 1000 // all checkpoints of short histories
		}
		wk.ChildCase(i, c)
		runC04(r, c, rng, restarts)
		if i == a.Start {
			r.Sample(c)
		}
	}
	wk.ChildDone(r)
}

func c04(c *wk.Ctx) {
	r := c.R
	r.Rule = "fault enumeration over cut positions: one uninterrupted resume-enabled end-to-end run per history (multi-database streams with transactions, pings, filtered commands, INCR/APPEND/RPUSH so that loss and duplication show; sender.count {1,2,5,1024}; arrival plans that let the 500 ms ticker split batches) yields the exact byte stream the target received; EVERY command boundary and every byte inside one command in eight (plus mid-point and last byte of the others) is taken as a cut (in every second history the source link itself breaks once at an arbitrary stream byte and the tool re-attaches with PSYNC/CONTINUE before the cuts are taken): the prefix is replayed into a model Redis with MULTI/EXEC semantics (an unfinished MULTI is discarded as Redis does on disconnect) and the stored checkpoint (run id, version, offset, database) must describe exactly the source history applied so far; from sampled distinct checkpoints a real DbSyncer is restarted against that state and a master that honours PSYNC <runid> <offset+1>, and must end with the uninterrupted run's dataset. distinct = (configuration, sender.count, arrival plan, #cuts class, #distinct checkpoints)"
	onDeath := func(d wk.Death) {
		if d.Result.TimedOut {
			r.Inconcl("C04 child watchdog: " + wk.Tail(d.Result.Stderr, 300))
			return
		}
		r.Violationf("C04|outcome=process-aborted", json.RawMessage(d.Desc), "resume-enabled sync ended the process (exit %d): %s", d.Result.Exit, firstPanicLine(d.Result.Stderr))
	}
	if wk.ReplayOne(c, "c04hist", func(idx int) interface{} { return c04extra{CfgIdx: idx / 100000} }, onDeath) {
		return
	}
	ncfg := c.N(10, 20)
	per := c.N(2, 36)
	// short-lived children (<= 4 histories each): every history leaves its fakes, byte logs and the syncers of
	// its restarts behind, and the race build multiplies that
	type job struct{ cfg, from, to int }
	var jobs []job
	for i := 0; i < ncfg; i++ {
		for f := 0; f < per; f += 4 {
			t := f + 4
			if t > per {
				t = per
			}
			jobs = append(jobs, job{i, f, t})
		}
	}
	wk.Parallel(len(jobs), 12, func(k int) {
		j := jobs[k]
		wk.RunBatch(c, "c04hist", j.cfg*100000+j.from, j.cfg*100000+j.to, c04extra{CfgIdx: j.cfg}, 60*time.Minute, onDeath)
	})
	r.Floor("histories", 8)
	r.Floor("histories_with_a_source_reconnect", 4)
	r.Floor("cut_states_checked", 3000)
	r.Floor("distinct_checkpoints_seen", 50)
	r.Floor("restarts", 20)
	r.Assume("a connection cut after byte k and 'ignore everything after byte k' are indistinguishable to the target, so all cuts are checked offline on the recorded stream; restarts are real. A crash of the tool between Flush returning and the kernel sending is the same byte-prefix family.")
	r.Assume("model Redis MULTI/EXEC semantics (queue, apply atomically at EXEC, discard on disconnect); reference history = lib/reffilter pipeline applied by the same model")
}
