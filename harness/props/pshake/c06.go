package pshake

import (
	"bufio"
	"bytes"
	"encoding/json"
	"fmt"
	"io"
	"io/ioutil"
	"os"
	"path/filepath"
	"sort"
	"strconv"
	"strings"
	"sync"
	"syscall"
	"time"

	"golang.org/x/sync/semaphore"

	"github.com/alibaba/RedisShake/pkg/libs/log"
	run "github.com/alibaba/RedisShake/redis-shake"
	conf "github.com/alibaba/RedisShake/redis-shake/configure"
	"github.com/alibaba/RedisShake/redis-shake/dbSync"
	"github.com/alibaba/RedisShake/redis-shake/dbSync/slot"
	"github.com/alibaba/RedisShake/redis-shake/filter"

	"verif/harness/lib/miniredis"
	"verif/harness/lib/prng"
	"verif/harness/lib/rdbgen"
	"verif/harness/lib/refcrc"
	"verif/harness/lib/reffilter"
	"verif/harness/lib/wk"
)

func init() {
	wk.Register("C06", c06)
	wk.RegisterChild("c06paths", c06pathsChild)
}

type c06cfg struct {
	Name     string   `json:"name"`
	KeyBlack []string `json:"key_blacklist,omitempty"`
	KeyWhite []string `json:"key_whitelist,omitempty"`
	DBBlack  []string `json:"db_blacklist,omitempty"`
	DBWhite  []string `json:"db_whitelist,omitempty"`
	Slots    []string `json:"slots,omitempty"`
	Lua      bool     `json:"filter_lua"`
	TargetDB int      `json:"target_db"` // -1 = keep the source database
}

func (c *c06cfg) ref() *reffilter.Config {
	return &reffilter.Config{KeyBlack: c.KeyBlack, KeyWhite: c.KeyWhite, DBBlack: c.DBBlack, DBWhite: c.DBWhite, Slots: c.Slots, Lua: c.Lua}
}

func (c *c06cfg) apply(base conf.Configuration) {
	base.FilterKeyBlacklist, base.FilterKeyWhitelist = c.KeyBlack, c.KeyWhite
	base.FilterDBBlacklist, base.FilterDBWhitelist = c.DBBlack, c.DBWhite
	base.FilterSlot, base.FilterLua = c.Slots, c.Lua
	base.TargetDB = c.TargetDB
	conf.Options = base
}

func c06configs() []c06cfg {
	cs := c06configsBase()
	for i := range cs {
		if !strings.Contains(cs[i].Name, "targetdb") {
			cs[i].TargetDB = -1
		}
	}
	return cs
}

func c06configsBase() []c06cfg {
	return []c06cfg{
		{Name: "targetdb", TargetDB: 2},
		{Name: "dbblack+targetdb", DBBlack: []string{"1", "5"}, TargetDB: 5},
		{Name: "dbwhite+targetdb", DBWhite: []string{"0", "5"}, TargetDB: 5},
		{Name: "dbwhite+targetdb0", DBWhite: []string{"1", "2"}, TargetDB: 0},
		{Name: "keyblack+targetdb", KeyBlack: []string{"no:"}, TargetDB: 1},
		{Name: "none"},
		{Name: "keyblack", KeyBlack: []string{"no:", "tmp"}},
		{Name: "keywhite", KeyWhite: []string{"ok:", "k"}},
		{Name: "dbblack", DBBlack: []string{"1", "5"}},
		{Name: "dbwhite", DBWhite: []string{"0", "2"}},
		{Name: "slots", Slots: []string{}}, // filled from the keyspace
		{Name: "lua", Lua: true},
		{Name: "keyblack+dbwhite", KeyBlack: []string{"no:"}, DBWhite: []string{"0", "1"}},
		{Name: "keywhite+lua", KeyWhite: []string{"ok:"}, Lua: true},
		{Name: "dbblack+lua", DBBlack: []string{"2"}, Lua: true},
		{Name: "keywhite-ckpt-prefix", KeyWhite: []string{"redis-shake", "ok:"}},
	}
}

type c06key struct {
	DB  int
	Key string
}

func c06keyspace(rng *prng.R) []c06key {
	var ks []c06key
	names := []string{"ok:a", "ok:b{tag}", "no:a", "no:b", "tmp1", "tm", "k1", "k", "K1", "o", "ok", "ok:", "no", "x{ok:}y", "plain", "{no:}z",
		"redis-shake-checkpoint", "redis-shake-checkpoint-abcd", "redis-shake-checkpoin", "ok:redis-shake-checkpoint", "\xffbin\x00key", "no:\xff"}
	for _, db := range []int{0, 1, 2, 5} {
		for _, n := range names {
			if rng.Chance(2, 3) {
				ks = append(ks, c06key{db, n + fmt.Sprintf("/%d", db)})
			}
		}
		ks = append(ks, c06key{db, "redis-shake-checkpoint"})
	}
	return ks
}

func keyID(db int, key string) string { return fmt.Sprintf("%d/%q", db, key) }

func isCkpt(key string) bool { return strings.HasPrefix(key, reffilter.CheckpointKey) }

// expected set for a path
func c06expect(ks []c06key, cfg *c06cfg, path string) map[string]bool {
	ref := cfg.ref()
	out := map[string]bool{}
	for _, k := range ks {
		if ref.DBExcluded(k.DB) {
			continue
		}
		always := path == "sync" || path == "restore" // these paths always consult the key filter (checkpoint rule)
		if always || ref.HasKeyFilter() {
			if ref.KeyExcluded([]byte(k.Key)) {
				continue
			}
		}
		if path == "sync" && ref.SlotExcluded([]byte(k.Key)) {
			continue
		}
		db := k.DB
		if cfg.TargetDB != -1 {
			db = cfg.TargetDB
		}
		out[keyID(db, k.Key)] = true
	}
	return out
}

func targetSet(srv *miniredis.Server) map[string]bool {
	out := map[string]bool{}
	for db, d := range srv.Snapshot() {
		for k := range d {
			out[keyID(db, k)] = true
		}
	}
	return out
}

func setDiff(a, b map[string]bool) (onlyA, onlyB []string) {
	for k := range a {
		if !b[k] {
			onlyA = append(onlyA, k)
		}
	}
	for k := range b {
		if !a[k] {
			onlyB = append(onlyB, k)
		}
	}
	sort.Strings(onlyA)
	sort.Strings(onlyB)
	return
}

// FIFOs whose write side must stay open for the life of the process (see path 2b)
var heldFifos []*os.File
var fifoOK = true

func baseConf() conf.Configuration {
	return conf.Configuration{Id: "verif", SourceType: conf.RedisTypeStandalone, TargetType: conf.RedisTypeStandalone, SourceAuthType: "auth", TargetAuthType: "auth",
		SourcePasswordRaw: e2eSrcPw, TargetPasswordRaw: e2eTgtPw, Parallel: 3, HttpProfile: -1, TargetDB: -1, SenderCount: 8, SenderSize: 65535, SenderDelayChannelSize: 65535,
		Metric: true, KeyExists: "rewrite", TargetReplace: true, TargetVersion: "5.0.7", BigKeyThreshold: 50 << 20, ScanKeyNumber: 7, Qps: 5000, SourceRdbParallel: 1}
}

func runC06paths(r resIface, cfg *c06cfg, rng *prng.R, scratch string, idx int) {
	ks := c06keyspace(rng)
	if cfg.Name == "slots" {
		// list the slots of about half of the keys
		seen := map[string]bool{}
		for i, k := range ks {
			if i%2 == 0 {
				s := strconv.Itoa(refcrc.Slot([]byte(k.Key)))
				if !seen[s] {
					seen[s] = true
					cfg.Slots = append(cfg.Slots, s)
				}
			}
		}
	}
	scripts := [][]byte{[]byte("return 1"), []byte("return redis.call('get', KEYS[1])")}
	// RDB of the keyspace, scripts at the end like Redis writes them
	f := &rdbgen.File{Version: 9}
	byDB := map[int][]c06key{}
	for _, k := range ks {
		byDB[k.DB] = append(byDB[k.DB], k)
	}
	for _, db := range []int{0, 1, 2, 5} {
		for _, k := range byDB[db] {
			f.Items = append(f.Items, rdbgen.Item{Key: &rdbgen.KeySpec{DB: uint32(k.DB), Key: []byte(k.Key), Val: &rdbgen.Value{Kind: "string", Str: []byte("v")}, Enc: "raw"}})
		}
	}
	for _, s := range scripts {
		f.Items = append(f.Items, rdbgen.Item{Meta: &rdbgen.Meta{Kind: "lua", B: s}})
	}
	data, _ := rdbgen.Build(rng, f, 0)
	results := map[string]map[string]bool{}
	scriptsLoaded := map[string]int{}
	sig := func(path, o string) string { return fmt.Sprintf("C06|path=%s|outcome=%s|config=%s", path, o, cfg.Name) }
	judge := func(path string, got map[string]bool) bool {
		want := c06expect(ks, cfg, path)
		missing, extra := setDiff(want, got)
		r.Case(fmt.Sprintf("%s|%s", cfg.Name, path))
		r.Count("path_runs", 1)
		r.Count("keys_judged", int64(len(ks)))
		results[path] = got
		if len(extra) > 0 {
			kind := "excluded-key-reached-target"
			for _, e := range extra {
				if strings.Contains(e, "redis-shake-checkpoint") {
					kind = "checkpoint-key-copied"
				}
			}
			r.Violation(sig(path, kind), fmt.Sprintf("%s path under %s: reached the target although excluded: %v", path, cfg.Name, extra[:minI(len(extra), 6)]), map[string]interface{}{"config": cfg, "path": path, "extra": extra})
			return false
		}
		if len(missing) > 0 {
			r.Violation(sig(path, "passing-key-missing"), fmt.Sprintf("%s path under %s: not excluded but never arrived: %v", path, cfg.Name, missing[:minI(len(missing), 6)]), map[string]interface{}{"config": cfg, "path": path, "missing": missing})
			return false
		}
		return true
	}
	newTarget := func() (*miniredis.Server, *miniredis.TCP) {
		srv := miniredis.NewServer()
		srv.Password = e2eTgtPw
		tcp, _ := srv.ListenTCP()
		return srv, tcp
	}
	// ---- 1. full sync
	{
		cfg.apply(baseConf())
		srv, tcp := newTarget()
		node := &slot.SyncNode{Id: idx*10 + 1, Source: "127.0.0.1:1", Target: []string{tcp.Addr}, TargetPassword: e2eTgtPw, SlotLeftBoundary: -1, SlotRightBoundary: -1}
		ds := dbSync.NewDbSyncer(node, -1, semaphore.NewWeighted(1))
		if err := ds.VerifSyncRDBFile(bufio.NewReaderSize(bytes.NewReader(data), 1<<16), []string{tcp.Addr}, "auth", e2eTgtPw, int64(len(data)), false); err != nil {
			r.Violation(sig("sync", "unexpected-error"), err.Error(), cfg)
		} else {
			judge("sync", targetSet(srv))
			scriptsLoaded["sync"] = len(srv.Scripts)
		}
	}
	// ---- 1c. full sync against a target that refuses the first SCRIPT LOAD with an error reply: the scripts of the file are
	// not filtered (filter.lua unset), so a run that reports success must have loaded every one of them; reporting the
	// failure (the caller then repeats the phase) is the other acceptable outcome
	if !cfg.Lua && len(scripts) > 0 {
		cfg.apply(baseConf())
		srv, tcp := newTarget()
		msg := []string{"BUSY Redis is busy running a script. You can only call SCRIPT KILL or SHUTDOWN NOSAVE.", "LOADING Redis is loading the dataset in memory", "OOM command not allowed when used memory > 'maxmemory'.", "READONLY You can't write against a read only replica."}[idx%4]
		srv.Faults = append(srv.Faults, &miniredis.Fault{Cmd: "script", Nth: 1, Reply: miniredis.ErrReply(msg)})
		node := &slot.SyncNode{Id: idx*10 + 3, Source: "127.0.0.1:1", Target: []string{tcp.Addr}, TargetPassword: e2eTgtPw, SlotLeftBoundary: -1, SlotRightBoundary: -1}
		ds := dbSync.NewDbSyncer(node, -1, semaphore.NewWeighted(1))
		err := ds.VerifSyncRDBFile(bufio.NewReaderSize(bytes.NewReader(data), 1<<16), []string{tcp.Addr}, "auth", e2eTgtPw, int64(len(data)), false)
		r.Count("full_syncs_with_a_refused_script_load", 1)
		srv.Mu.Lock()
		loaded := len(srv.Scripts)
		srv.Mu.Unlock()
		if err == nil && loaded != len(scripts) {
			r.Violation(sig("sync", "lua-script-missing-after-a-refused-load-and-a-reported-success"), fmt.Sprintf("sync path under %s: the target refused one SCRIPT LOAD (%q); the phase reported success with %d of %d Lua scripts on the target (filter.lua=false)", cfg.Name, msg, loaded, len(scripts)), cfg)
		}
	}
	// ---- 1b. full sync of keys that reach the workers in several pieces: a hash above the 16 MiB chunk limit is handed
	// to the parallel workers as consecutive records carrying the same key, and every one of them needs the key's verdict
	if (len(cfg.KeyBlack) > 0 || len(cfg.KeyWhite) > 0) && (idx < 16 && (idx == 4 || idx == 6 || idx == 7) || idx >= 16 && idx%3 == 0) {
		cfg.apply(baseConf())
		conf.Options.KeyExists = "none"
		srv, tcp := newTarget()
		bf := &rdbgen.File{Version: 9}
		small := func(name string) {
			bf.Items = append(bf.Items, rdbgen.Item{Key: &rdbgen.KeySpec{DB: 0, Key: []byte(name), Val: &rdbgen.Value{Kind: "string", Str: []byte("v")}, Enc: "raw"}})
		}
		big := func(name string) {
			hv := &rdbgen.Value{Kind: "hash"}
			for q := 0; q < 58; q++ {
				val := bytes.Repeat([]byte{byte('a' + q%26)}, 600000)
				hv.Hash = append(hv.Hash, [2][]byte{[]byte(fmt.Sprintf("f%d", q)), val})
			}
			bf.Items = append(bf.Items, rdbgen.Item{Key: &rdbgen.KeySpec{DB: 0, Key: []byte(name), Val: hv, Enc: "table"}})
		}
		for q := 0; q < 6; q++ {
			small(fmt.Sprintf("ok:s%d", q))
			small(fmt.Sprintf("k%d", q))
		}
		big("no:bighash")
		small("ok:between")
		big("other-bighash")
		for q := 0; q < 6; q++ {
			small(fmt.Sprintf("ok:t%d", q))
		}
		bdata, _ := rdbgen.Build(rng, bf, 0)
		node := &slot.SyncNode{Id: idx*10 + 2, Source: "127.0.0.1:1", Target: []string{tcp.Addr}, TargetPassword: e2eTgtPw, SlotLeftBoundary: -1, SlotRightBoundary: -1}
		ds := dbSync.NewDbSyncer(node, -1, semaphore.NewWeighted(1))
		err := ds.VerifSyncRDBFile(bufio.NewReaderSize(bytes.NewReader(bdata), 1<<16), []string{tcp.Addr}, "auth", e2eTgtPw, int64(len(bdata)), false)
		r.Case(fmt.Sprintf("%s|sync-chunked", cfg.Name))
		r.Count("sync_runs_with_chunked_keys", 1)
		ref := cfg.ref()
		got := targetSet(srv)
		for _, name := range []string{"no:bighash", "other-bighash"} {
			if ref.KeyExcluded([]byte(name)) && got[keyID(0, name)] {
				nf := 0
				if e := srv.Raw(0, name); e != nil {
					nf = e.Val.Elements()
				}
				r.Violation(sig("sync", "excluded-key-reached-target|chunked"), fmt.Sprintf("full sync under %s with parallel %d: %d fields of the excluded hash %q (above the chunk limit: several records) reached the target (run returned %v)", cfg.Name, conf.Options.Parallel, nf, name, err), cfg)
			}
		}
		tcp.Close()
	}
	// ---- 2. restore mode
	{
		c := baseConf()
		in := filepath.Join(scratch, fmt.Sprintf("c06-%d.rdb", idx))
		ioutil.WriteFile(in, data, 0644)
		defer os.Remove(in)
		srv, tcp := newTarget()
		c.SourceRdbInput, c.TargetAddressList, c.Type = []string{in}, []string{tcp.Addr}, conf.TypeRestore
		cfg.apply(c)
		done := make(chan struct{})
		go func() { (&run.CmdRestore{}).Main(); close(done) }()
		select {
		case <-done:
			judge("restore", targetSet(srv))
			scriptsLoaded["restore"] = len(srv.Scripts)
		case <-time.After(60 * time.Second):
			r.Inconcl("restore path watchdog")
		}
	}
	// ---- 2b. restore mode's command phase (extra=true): the input is what dump mode writes with extra=true - the RDB
	// followed by the source's command stream. It arrives through a FIFO whose write side stays open, because the phase
	// has no end (at end of input the tool exits). Keys of this phase carry a "#c" suffix (prefix rules are unaffected).
	if fifoOK {
		c := baseConf()
		fifo := filepath.Join(scratch, fmt.Sprintf("c06-%d.fifo", idx))
		os.Remove(fifo)
		if err := syscall.Mkfifo(fifo, 0600); err != nil {
			r.Inconcl("mkfifo: " + err.Error())
		} else if hold, err := os.OpenFile(fifo, os.O_RDWR, 0); err != nil {
			r.Inconcl("open fifo: " + err.Error())
		} else {
			heldFifos = append(heldFifos, hold) // never closed, never collected: EOF would end the process
			defer os.Remove(fifo)
			srv, tcp := newTarget()
			c.SourceRdbInput, c.TargetAddressList, c.Type, c.ExtraInfo = []string{fifo}, []string{tcp.Addr}, conf.TypeRestore, true
			cfg.apply(c)
			go (&run.CmdRestore{}).Main()
			ref := cfg.ref()
			var cmds []srcCmd
			wantKeys, wantScripts := map[string]bool{}, 0
			keyFiltered, ckptKeys := map[string]bool{}, map[string]bool{}
			cur := -1
			endDB := -1
			for i, k := range ks {
				if k.DB != cur {
					cur = k.DB
					cmds = append(cmds, srcCmd{Name: rng.PickS("SELECT", "select"), Args: [][]byte{[]byte(strconv.Itoa(cur))}})
				}
				name := k.Key + "#c"
				cmds = append(cmds, srcCmd{Name: rng.PickS("SET", "set"), Args: [][]byte{[]byte(name), []byte("v")}})
				if !ref.DBExcluded(cur) {
					endDB = cur
					switch {
					case isCkpt(name):
						ckptKeys[keyID(cur, name)] = true // never copied by restore
					case ref.KeyExcluded([]byte(name)):
						keyFiltered[keyID(cur, name)] = true
					default:
						wantKeys[keyID(cur, name)] = true
					}
				}
				switch i % 9 {
				case 3:
					cmds = append(cmds, srcCmd{Name: "EVAL", Args: [][]byte{[]byte("return 1"), []byte("0")}})
					if !cfg.Lua && !ref.DBExcluded(cur) {
						wantScripts++
					}
				case 7:
					cmds = append(cmds, srcCmd{Name: "opinfo", Args: [][]byte{[]byte("x")}})
				case 8:
					cmds = append(cmds, srcCmd{Name: "PING"})
				}
			}
			// the last command of the stream runs in a database that passes: once it is visible everything before it was handled
			cmds = append(cmds, srcCmd{Name: "SELECT", Args: [][]byte{[]byte(strconv.Itoa(endDB))}}, srcCmd{Name: "SET", Args: [][]byte{[]byte("zz-end-of-stream"), []byte("v")}})
			go hold.Write(append(append([]byte{}, data...), streamBytes(cmds)...))
			endID := keyID(endDB, "zz-end-of-stream")
			if endDB < 0 || !waitUntil(20*time.Second, func() bool { return targetSet(srv)[endID] }) {
				if endDB >= 0 {
					r.Violation(sig("restore-command-phase", "stream-not-forwarded"), fmt.Sprintf("restore with extra=true under %s: the last command of the stream (db %d, which passes) never reached the target", cfg.Name, endDB), cfg)
				}
			} else {
				got := map[string]bool{}
				for id := range targetSet(srv) {
					if strings.HasSuffix(id, "#c\"") {
						got[id] = true
					}
				}
				nScripts, nOpinfo := 0, 0
				srv.Mu.Lock()
				for _, l := range srv.Log {
					switch l.Name {
					case "eval": // SCRIPT LOAD also comes from the RDB phase (the file's Lua scripts): only EVAL is sent by the stream
						nScripts++
					case "opinfo":
						nOpinfo++
					}
				}
				srv.Mu.Unlock()
				r.Case(fmt.Sprintf("%s|restore-command-phase", cfg.Name))
				r.Count("restore_command_phase_runs", 1)
				rep := map[string]interface{}{"config": cfg, "path": "restore-command-phase"}
				var wrongDB, missing, filteredIn, ckptIn []string
				for id := range got {
					switch {
					case wantKeys[id]:
					case keyFiltered[id]:
						filteredIn = append(filteredIn, id)
					case ckptKeys[id]:
						ckptIn = append(ckptIn, id)
					default:
						wrongDB = append(wrongDB, id)
					}
				}
				for id := range wantKeys {
					if !got[id] {
						missing = append(missing, id)
					}
				}
				sort.Strings(wrongDB)
				sort.Strings(missing)
				sort.Strings(filteredIn)
				sort.Strings(ckptIn)
				if len(wrongDB) > 0 {
					r.Violation(sig("restore-command-phase", "excluded-database-reached-target"), fmt.Sprintf("restore with extra=true under %s: commands of excluded databases were forwarded: %v", cfg.Name, wrongDB[:minI(len(wrongDB), 6)]), rep)
				}
				if len(missing) > 0 {
					r.Violation(sig("restore-command-phase", "passing-key-missing"), fmt.Sprintf("restore with extra=true under %s: not excluded but never arrived: %v", cfg.Name, missing[:minI(len(missing), 6)]), rep)
				}
				// one signature per rule, whatever the configuration: what fails is the phase, not the configuration
				if len(filteredIn) > 0 {
					r.Violation("C06|path=restore-command-phase|outcome=key-lists-not-applied", fmt.Sprintf("restore with extra=true under %s: keys excluded by the key lists were forwarded by the command phase: %v", cfg.Name, filteredIn[:minI(len(filteredIn), 6)]), rep)
				}
				if len(ckptIn) > 0 {
					r.Violation("C06|path=restore-command-phase|outcome=checkpoint-key-copied", fmt.Sprintf("restore with extra=true under %s: checkpoint keys were forwarded by the command phase: %v", cfg.Name, ckptIn[:minI(len(ckptIn), 6)]), rep)
				}
				if nScripts > wantScripts {
					r.Violation("C06|path=restore-command-phase|outcome=script-command-forwarded-under-filter-lua", fmt.Sprintf("restore with extra=true under %s: %d script commands reached the target, expected %d (filter.lua=%v)", cfg.Name, nScripts, wantScripts, cfg.Lua), rep)
				} else if nScripts < wantScripts {
					r.Violation(sig("restore-command-phase", "script-command-dropped"), fmt.Sprintf("restore with extra=true under %s: %d script commands reached the target, expected %d", cfg.Name, nScripts, wantScripts), rep)
				}
				if nOpinfo > 0 {
					r.Violation("C06|path=restore-command-phase|outcome=bookkeeping-command-forwarded", fmt.Sprintf("restore with extra=true under %s: %d opinfo commands reached the target", cfg.Name, nOpinfo), rep)
				}
			}
		}
	}
	// ---- 3. rump
	{
		c := baseConf()
		src := miniredis.NewServer()
		src.Password = e2eSrcPw
		for _, k := range ks {
			src.Put(k.DB, k.Key, &rdbgen.Value{Kind: "string", Str: []byte("v")}, 0)
		}
		stcp, _ := src.ListenTCP()
		srv, tcp := newTarget()
		c.SourceAddressList, c.TargetAddressList, c.Type = []string{stcp.Addr}, []string{tcp.Addr}, conf.TypeRump
		cfg.apply(c)
		done := make(chan struct{})
		go func() { (&run.CmdRump{}).Main(); close(done) }()
		select {
		case <-done:
			judge("rump", targetSet(srv))
		case <-time.After(60 * time.Second):
			r.Inconcl("rump path watchdog")
		}
	}
	// ---- 4. incremental: one table command per key, script commands and the bookkeeping command in between.
	// Several stream orders run concurrently: order r starts with the keys of database a_r, then those of b_r (every
	// ordered pair of databases leads one stream), then everything else shuffled, so that every "first SELECT x, then
	// SELECT y" prefix and many later switches are driven.
	{
		cfg.apply(baseConf())
		dbsAll := []int{0, 1, 2, 5}
		type order struct{ a, b int }
		orders := []order{{-1, -1}}
		for _, a := range dbsAll {
			for _, b := range dbsAll {
				if a != b {
					orders = append(orders, order{a, b})
				}
			}
		}
		type incrOut struct {
			multi      int
			got        map[string]bool
			scripts    int
			opinfo     int
			wantScript int
		}
		outs := make([]incrOut, len(orders))
		var wg sync.WaitGroup
		for oi, od := range orders {
			wg.Add(1)
			orng := rng.Split(uint64(oi))
			go func(oi int, od order, orng *prng.R) {
				defer wg.Done()
				srv := miniredis.NewServer()
				conn := srv.NewConn()
				conn.BlockReceive = true
				pr, pw := io.Pipe()
				node := &slot.SyncNode{Id: idx*100 + 40 + oi, Source: "10.1.1.1:6379", Target: []string{"127.0.0.1:1"}, SlotLeftBoundary: -1, SlotRightBoundary: -1}
				ds := dbSync.NewDbSyncer(node, -1, semaphore.NewWeighted(1))
				ds.VerifRunIncr(bufio.NewReaderSize(pr, 1<<16), conn, 0, e2eRunID, 100, 8, 65535)
				var first, second, rest []c06key
				for _, pi := range orng.Perm(len(ks)) {
					k := ks[pi]
					switch {
					case k.DB == od.a && len(first) < 3:
						first = append(first, k)
					case k.DB == od.b && len(second) < 3:
						second = append(second, k)
					default:
						rest = append(rest, k)
					}
				}
				ordered := append(append(first, second...), rest...)
				var cmds []srcCmd
				cur := -1
				multiKeyCmds := 0
				for i := 0; i < len(ordered); i++ {
					k := ordered[i]
					if k.DB != cur {
						cur = k.DB
						cmds = append(cmds, srcCmd{Name: "SELECT", Args: [][]byte{[]byte(strconv.Itoa(cur))}})
					}
					// one key in three shares a multi-key write with its successors (same database): every key of
					// such a command gets its own decision, whatever its position in the argument list
					grp := 1
					if orng.Chance(1, 3) {
						for grp < 3 && i+grp < len(ordered) && ordered[i+grp].DB == k.DB {
							grp++
						}
					}
					if grp > 1 {
						var args [][]byte
						for _, g := range ordered[i : i+grp] {
							args = append(args, []byte(g.Key), []byte("v"))
						}
						cmds = append(cmds, srcCmd{Name: orng.PickS("MSET", "mset"), Args: args})
						multiKeyCmds++
						i += grp - 1
					} else {
						cmds = append(cmds, srcCmd{Name: orng.PickS("SET", "set", "SeT"), Args: [][]byte{[]byte(k.Key), []byte("v")}})
					}
					switch i % 9 {
					case 3:
						cmds = append(cmds, srcCmd{Name: orng.PickS("EVAL", "eval"), Args: [][]byte{[]byte("return 1"), []byte("0")}})
					case 5:
						cmds = append(cmds, srcCmd{Name: orng.PickS("SCRIPT", "Script"), Args: [][]byte{[]byte("load"), []byte("return 2")}})
					case 6:
						cmds = append(cmds, srcCmd{Name: orng.PickS("EVALSHA", "evalsha"), Args: [][]byte{[]byte("da39a3ee5e6b4b0d3255bfef95601890afd80709"), []byte("0")}})
					case 7:
						cmds = append(cmds, srcCmd{Name: orng.PickS("opinfo", "OPINFO"), Args: [][]byte{[]byte("x")}})
					}
				}
				pw.Write(streamBytes(cmds))
				want := c06expect(ks, cfg, "incr")
				// script commands the reference expects at the target (they may trail the last key)
				wantScript := 0
				{
					cur, ref := -1, cfg.ref()
					for _, c := range cmds {
						n := strings.ToLower(c.Name)
						if n == "select" {
							cur, _ = strconv.Atoi(string(c.Args[0]))
						}
						if (n == "eval" || n == "evalsha" || n == "script") && !cfg.Lua && !ref.DBExcluded(cur) {
							wantScript++
						}
					}
				}
				scriptsSeen := func() int {
					k := 0
					srv.Mu.Lock()
					for _, l := range srv.Log {
						if l.Name == "eval" || l.Name == "evalsha" || l.Name == "script" {
							k++
						}
					}
					srv.Mu.Unlock()
					return k
				}
				// "missing" is only concluded after a generous wait (a loaded machine delays the last ticker flush); the
				// extra flush period afterwards is for what should not arrive at all
				waitUntil(15*time.Second, func() bool { return len(targetSet(srv)) >= len(want) && scriptsSeen() >= wantScript })
				time.Sleep(600 * time.Millisecond) // one more flush-ticker period: anything wrongly forwarded shows up
				o := incrOut{got: targetSet(srv), multi: multiKeyCmds}
				srv.Mu.Lock()
				for _, l := range srv.Log {
					switch l.Name {
					case "eval", "evalsha", "script":
						o.scripts++
					case "opinfo":
						o.opinfo++
					}
				}
				srv.Mu.Unlock()
				o.wantScript = wantScript
				outs[oi] = o
			}(oi, od, orng)
		}
		wg.Wait()
		for oi, o := range outs {
			if !judge("incr", o.got) {
				r.Count("incr_order_with_violation", 1)
				_ = oi
				break
			}
			r.Count("incr_stream_orders", 1)
			r.Count("incr_multi_key_commands", int64(o.multi))
			if o.opinfo > 0 {
				r.Violation(sig("incr", "bookkeeping-command-forwarded"), fmt.Sprintf("%d opinfo commands reached the target", o.opinfo), cfg)
				break
			}
			if o.scripts != o.wantScript {
				x := "script-command-dropped"
				if o.scripts > o.wantScript {
					x = "script-command-forwarded-under-filter-lua"
				}
				r.Violation(sig("incr", x), fmt.Sprintf("%d script commands reached the target, expected %d (filter.lua=%v)", o.scripts, o.wantScript, cfg.Lua), cfg)
				break
			}
		}
	}
	// ---- Lua scripts of the RDB: excluded exactly when filter.lua is set
	for _, p := range []string{"sync", "restore"} {
		n, ok := scriptsLoaded[p]
		if !ok {
			continue
		}
		want := len(scripts)
		if cfg.Lua {
			want = 0
		}
		r.Count("script_checks", 1)
		if n != want {
			o := "lua-script-dropped-by-another-filter"
			if n > want {
				o = "lua-script-loaded-under-filter-lua"
			}
			r.Violation(sig(p, o), fmt.Sprintf("%s path under %s: %d of %d Lua scripts were loaded on the target (filter.lua=%v)", p, cfg.Name, n, len(scripts), cfg.Lua), cfg)
		}
	}
	// ---- same decision for the same key in every path (checkpoint keys and the sync-only slot list aside)
	paths := []string{"sync", "restore", "rump", "incr"}
	for i := 0; i < len(paths); i++ {
		for j := i + 1; j < len(paths); j++ {
			a, b := results[paths[i]], results[paths[j]]
			if a == nil || b == nil || len(cfg.Slots) > 0 {
				continue
			}
			for _, k := range ks {
				if isCkpt(k.Key) {
					continue
				}
				db := k.DB
				if cfg.TargetDB != -1 {
					db = cfg.TargetDB
				}
				id := keyID(db, k.Key)
				if a[id] != b[id] {
					r.Violation(sig(paths[i]+"-vs-"+paths[j], "paths-disagree"), fmt.Sprintf("key %s under %s: %s path copied=%v, %s path copied=%v", id, cfg.Name, paths[i], a[id], paths[j], b[id]), cfg)
					return
				}
			}
			r.Count("pairwise_agreements", 1)
		}
	}
}

func c06pathsChild(raw json.RawMessage, scratch string) {
	a := wk.ParseBatchArg(raw, nil)
	log.SetLevel(log.LEVEL_NONE)
	r := wk.ChildRes("C06")
	inChild = true
	base := prng.New(a.Seed).Split(0xC06)
	cfgs := c06configs()
	for i := a.Start; i < a.End; i++ {
		cfg := cfgs[i%len(cfgs)]
		wk.ChildCase(i, cfg)
		runC06paths(r, &cfg, base.At(uint64(i)), scratch, i)
		if i == a.Start {
			r.Sample(map[string]interface{}{"config": cfg, "paths": []string{"sync", "restore", "rump", "incr"}})
		}
	}
	wk.ChildDone(r)
}

func c06(c *wk.Ctx) {
	r := c.R
	r.Rule = "(a) predicate level: FilterKey/FilterDB/FilterSlot/FilterCommands against the reference on generated keys (arbitrary bytes, every listed prefix truncated/extended by one byte, hash tags, the checkpoint key and its shard variants), database numbers and command names in any letter case, under every list configuration; (b) path level: one keyspace (4 databases, prefix neighbours, checkpoint keys, binary keys, 2 Lua scripts) pushed through full sync (hook), restore mode, rump and the incremental parser+sender under 11 configurations (none, key black/white list, db black/white list, slot list, filter.lua, combinations, a whitelist that covers the checkpoint prefix); arrival sets compared with the reference per path and pairwise; script commands / Lua scripts / opinfo counted; key-list configurations also sync hashes above the chunk limit; restore mode's command phase (extra=true) through a FIFO, judged per rule. distinct = (configuration, path) + predicate classes"
	rng := c.Rng
	// ---- (a) predicates, in-process
	prefixes := []string{"no:", "tmp", "ok:", "k", "redis-shake", "a\xffb", ""}
	mkKey := func() string {
		p := prefixes[rng.Intn(len(prefixes))]
		switch rng.Intn(8) {
		case 0:
			if len(p) > 0 {
				return p[:len(p)-1] // truncated by one byte
			}
		case 1:
			return p + string(rng.Bytes(1)) // extended by one byte
		case 2:
			return p
		case 3:
			return "x" + p
		case 4:
			return "{" + p + "}" + string(rng.Alpha(3, "abc"))
		case 5:
			return reffilter.CheckpointKey + string(rng.Alpha(rng.Intn(6), "-abcd"))
		case 6:
			return string(rng.Bytes(rng.Range(0, 12)))
		}
		return p + string(rng.Alpha(rng.Range(0, 5), "abc:{}"))
	}
	lists := [][]string{nil, {"no:"}, {"no:", "tmp"}, {"ok:", "k"}, {"redis-shake"}, {"a\xffb"}, {""}}
	npred := c.N(200000, 8000000)
	for i := 0; i < npred; i++ {
		bl, wl := lists[rng.Intn(len(lists))], lists[rng.Intn(len(lists))]
		if rng.Bool() {
			bl = nil
		} else {
			wl = nil
		}
		dbl := [][]string{nil, {"1"}, {"0", "15"}, {"10"}, {"300"}, {"256", "1"}, {"1024", "65536"}}[rng.Intn(7)]
		var dbb, dbw []string
		if rng.Bool() {
			dbb = dbl
		} else {
			dbw = dbl
		}
		slots := [][]string{nil, {"0"}, {"5061", "16383"}, {"12182"}}[rng.Intn(4)]
		lua := rng.Bool()
		conf.Options = conf.Configuration{FilterKeyBlacklist: bl, FilterKeyWhitelist: wl, FilterDBBlacklist: dbb, FilterDBWhitelist: dbw, FilterSlot: slots, FilterLua: lua}
		ref := &reffilter.Config{KeyBlack: bl, KeyWhite: wl, DBBlack: dbb, DBWhite: dbw, Slots: slots, Lua: lua}
		key := mkKey()
		db := rng.Pick(0, 1, 10, 15, 100, 5, 255, 256, 300, 1024, 65535, 65536, 1<<31-1)
		cmd := caseMix(rng, rng.PickS("eval", "evalsha", "script", "opinfo", "set", "evals", "scripts", "publish", "opinfox"))
		slotN := refcrc.Slot([]byte(key))
		if rng.Chance(1, 4) {
			slotN = rng.Pick(0, 5061, 16383, 12182, 1)
		}
		rep := map[string]interface{}{"key": fmt.Sprintf("%q", key), "db": db, "cmd": cmd, "blacklist": bl, "whitelist": wl, "dbblack": dbb, "dbwhite": dbw, "slots": slots, "lua": lua}
		if g, w := filter.FilterKey(key), ref.KeyExcluded([]byte(key)); g != w {
			r.Violationf("C06|predicate=FilterKey|outcome=wrong", rep, "FilterKey(%q)=%v under blacklist %q whitelist %q, reference says %v", key, g, bl, wl, w)
		}
		if g, w := filter.FilterDB(db), ref.DBExcluded(db); g != w {
			r.Violationf("C06|predicate=FilterDB|outcome=wrong", rep, "FilterDB(%d)=%v under black %q white %q, reference %v", db, g, dbb, dbw, w)
		}
		slotExcluded := len(slots) > 0
		for _, s := range slots {
			if s == strconv.Itoa(slotN) {
				slotExcluded = false
			}
		}
		if g := filter.FilterSlot(slotN); g != slotExcluded {
			r.Violationf("C06|predicate=FilterSlot|outcome=wrong", rep, "FilterSlot(%d)=%v under %q, reference %v", slotN, g, slots, slotExcluded)
		}
		if g, w := filter.FilterCommands(cmd), ref.CommandExcluded(cmd); g != w {
			r.Violationf("C06|predicate=FilterCommands|outcome=wrong", rep, "FilterCommands(%q)=%v with filter.lua=%v, reference %v", cmd, g, lua, w)
		}
		if i%5000 == 0 {
			r.Case(fmt.Sprintf("pred|%v|%v|%v|%v", bl, wl, dbl, lua))
		} else {
			r.Case("")
		}
	}
	r.Count("predicate_evaluations", int64(npred)*4)
	conf.Options = conf.Configuration{}
	// ---- (b) paths, one configuration per child
	onDeath := func(d wk.Death) {
		if d.Result.TimedOut {
			r.Inconcl("C06 child watchdog: " + wk.Tail(d.Result.Stderr, 300))
			return
		}
		r.Violationf("C06|outcome=process-aborted", json.RawMessage(d.Desc), "a data path ended the process (exit %d): %s", d.Result.Exit, firstPanicLine(d.Result.Stderr))
	}
	n := len(c06configs()) * c.N(1, 24)
	wk.Parallel(n, 11, func(i int) {
		wk.RunBatch(c, "c06paths", i, i+1, nil, 20*time.Minute, onDeath)
	})
	r.Floor("sync_runs_with_chunked_keys", 3)
	r.Floor("restore_command_phase_runs", 12)
	r.Floor("path_runs", 40)
	r.Floor("full_syncs_with_a_refused_script_load", 5)
	r.Floor("pairwise_agreements", 30)
	r.Floor("predicate_evaluations", 100000)
	r.Assume("in the incremental path the key decision exists only for commands of the tool's table (C13's wording); writes outside it are forwarded. Rump and the incremental path consult the key filter only when one is configured, so without a key filter they may copy the checkpoint key (the statement allows that).")
}
