// Package gstate inspects goroutine states through runtime.Stack so that "blocked" and "woken" are
// decided logically (parked in sync.Cond.Wait or not), never by a timer.
package gstate

import (
	"bytes"
	"runtime"
	"time"
)

type State int

const (
	Gone    State = iota // no goroutine with that marker
	Parked               // waiting in sync.Cond.Wait
	Running              // anything else (running, runnable, locking a mutex, syscall ...)
)

func (s State) String() string { return [...]string{"gone", "parked", "running"}[s] }

var buf = make([]byte, 1<<20)

// Of returns the state of the (first) goroutine whose stack mentions marker, and its stack text.
func Of(marker string) (State, string) {
	for {
		n := runtime.Stack(buf, true)
		if n < len(buf) {
			return find(buf[:n], marker)
		}
		buf = make([]byte, 2*len(buf))
	}
}

func find(dump []byte, marker string) (State, string) {
	for _, blk := range bytes.Split(dump, []byte("\n\n")) {
		if !bytes.Contains(blk, []byte(marker)) {
			continue
		}
		nl := bytes.IndexByte(blk, '\n')
		if nl < 0 {
			nl = len(blk)
		}
		hdr := blk[:nl]
		if bytes.Contains(hdr, []byte("sync.Cond.Wait")) {
			return Parked, string(blk)
		}
		return Running, string(blk)
	}
	return Gone, ""
}

// Settle waits until done is closed or the marked goroutine is parked in sync.Cond.Wait.
// Returns (finished, parked). If neither happens within the (generous) watchdog, both are false:
// the caller must treat that as inconclusive, not as a verdict.
func Settle(done <-chan struct{}, marker string, watchdog time.Duration) (finished, parked bool) {
	for i := 0; i < 200; i++ {
		select {
		case <-done:
			return true, false
		default:
		}
		runtime.Gosched()
	}
	deadline := time.Now().Add(watchdog)
	sleep := 20 * time.Microsecond
	for {
		select {
		case <-done:
			return true, false
		default:
		}
		st, _ := Of(marker)
		if st == Parked {
			// re-check done: it may have finished between the two observations
			select {
			case <-done:
				return true, false
			default:
			}
			return false, true
		}
		if time.Now().After(deadline) {
			return false, false
		}
		time.Sleep(sleep)
		if sleep < 5*time.Millisecond {
			sleep *= 2
		}
	}
}
