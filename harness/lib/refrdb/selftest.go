package refrdb

import (
	"fmt"

	"verif/harness/lib/prng"
	"verif/harness/lib/rdbgen"
)

func selfTest(seed uint64, n int) string {
	rng := prng.New(seed).Split(0x5E1F)
	for i := 0; i < n; i++ {
		kind := rdbgen.Kinds[rng.Intn(len(rdbgen.Kinds))]
		v := rdbgen.RandValue(rng, kind, rng.Pick(0, 1, 2, 7, 40))
		if kind == "intset" && len(v.List) == 0 {
			continue
		}
		for _, enc := range rdbgen.EncodingsFor(v) {
			w := &rdbgen.W{Rng: rng, WideLens: 3}
			t, label := rdbgen.EncodeValue(w, v, enc)
			payload := rdbgen.DumpPayload(t, w.Bytes(), 9)
			back, _, err := DecodeDump(payload, 9)
			if err != nil {
				return fmt.Sprintf("refrdb(rdbgen(%s)) failed: %v", label, err)
			}
			if !Equal(v, back) {
				return fmt.Sprintf("refrdb(rdbgen(%s)) != value", label)
			}
		}
		// LZF
		p := rdbgen.Repetitive(rng, rng.Range(4, 500))
		c := rdbgen.LZFCompress(rng, p)
		q, err := rdbgen.LZFDecompress(c, len(p))
		if err != nil || string(q) != string(p) {
			return fmt.Sprintf("LZF round trip failed: %v", err)
		}
	}
	return ""
}
