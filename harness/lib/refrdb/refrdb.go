// Package refrdb is an independent decoder of DUMP payloads / serialized RDB values into logical
// values. It is the trusted base of the model Redis (RESTORE) and the self-test partner of rdbgen.
package refrdb

import (
	"encoding/binary"
	"errors"
	"fmt"
	"math"
	"strconv"

	"verif/harness/lib/rdbgen"
	"verif/harness/lib/refcrc"
)

type rd struct {
	p   []byte
	pos int
}

var errShort = errors.New("refrdb: short input")

func (r *rd) need(n int) error {
	if n < 0 || r.pos+n > len(r.p) {
		return errShort
	}
	return nil
}

func (r *rd) byte1() (byte, error) {
	if err := r.need(1); err != nil {
		return 0, err
	}
	b := r.p[r.pos]
	r.pos++
	return b, nil
}

func (r *rd) take(n int) ([]byte, error) {
	if err := r.need(n); err != nil {
		return nil, err
	}
	b := r.p[r.pos : r.pos+n]
	r.pos += n
	return b, nil
}

// length returns (value, isEncoded, encodingType)
func (r *rd) length() (uint64, bool, error) {
	b, err := r.byte1()
	if err != nil {
		return 0, false, err
	}
	switch b >> 6 {
	case 0:
		return uint64(b & 0x3f), false, nil
	case 1:
		b2, err := r.byte1()
		return uint64(b&0x3f)<<8 | uint64(b2), false, err
	case 3:
		return uint64(b & 0x3f), true, nil
	}
	switch b {
	case 0x80:
		x, err := r.take(4)
		if err != nil {
			return 0, false, err
		}
		return uint64(binary.BigEndian.Uint32(x)), false, nil
	case 0x81:
		x, err := r.take(8)
		if err != nil {
			return 0, false, err
		}
		return binary.BigEndian.Uint64(x), false, nil
	}
	return 0, false, fmt.Errorf("refrdb: bad length byte %#x", b)
}

func (r *rd) plainLen() (uint64, error) {
	n, enc, err := r.length()
	if err == nil && enc {
		err = errors.New("refrdb: encoded value where a length is required")
	}
	return n, err
}

func (r *rd) str() ([]byte, error) {
	n, enc, err := r.length()
	if err != nil {
		return nil, err
	}
	if !enc {
		return r.take(int(n))
	}
	switch n {
	case 0:
		b, err := r.take(1)
		if err != nil {
			return nil, err
		}
		return []byte(strconv.Itoa(int(int8(b[0])))), nil
	case 1:
		b, err := r.take(2)
		if err != nil {
			return nil, err
		}
		return []byte(strconv.Itoa(int(int16(binary.LittleEndian.Uint16(b))))), nil
	case 2:
		b, err := r.take(4)
		if err != nil {
			return nil, err
		}
		return []byte(strconv.Itoa(int(int32(binary.LittleEndian.Uint32(b))))), nil
	case 3:
		cl, err := r.plainLen()
		if err != nil {
			return nil, err
		}
		ul, err := r.plainLen()
		if err != nil {
			return nil, err
		}
		c, err := r.take(int(cl))
		if err != nil {
			return nil, err
		}
		return rdbgen.LZFDecompress(c, int(ul))
	}
	return nil, fmt.Errorf("refrdb: unknown string encoding %d", n)
}

func zlParse(blob []byte) ([][]byte, error) {
	if len(blob) < 11 {
		return nil, errors.New("refrdb: ziplist too short")
	}
	if int(binary.LittleEndian.Uint32(blob)) != len(blob) {
		return nil, errors.New("refrdb: ziplist zlbytes mismatch")
	}
	cnt := int(binary.LittleEndian.Uint16(blob[8:]))
	p := 10
	var out [][]byte
	for {
		if p >= len(blob) {
			return nil, errShort
		}
		if blob[p] == 0xFF {
			break
		}
		if blob[p] == 0xFE {
			p += 5
		} else {
			p++
		}
		if p >= len(blob) {
			return nil, errShort
		}
		h := blob[p]
		p++
		getN := func(n int) ([]byte, error) {
			if p+n > len(blob) {
				return nil, errShort
			}
			b := blob[p : p+n]
			p += n
			return b, nil
		}
		var item []byte
		switch {
		case h>>6 == 0:
			b, err := getN(int(h & 0x3f))
			if err != nil {
				return nil, err
			}
			item = b
		case h>>6 == 1:
			l, err := getN(1)
			if err != nil {
				return nil, err
			}
			b, err := getN(int(h&0x3f)<<8 | int(l[0]))
			if err != nil {
				return nil, err
			}
			item = b
		case h>>6 == 2:
			l, err := getN(4)
			if err != nil {
				return nil, err
			}
			b, err := getN(int(binary.BigEndian.Uint32(l)))
			if err != nil {
				return nil, err
			}
			item = b
		case h == 0xC0:
			b, err := getN(2)
			if err != nil {
				return nil, err
			}
			item = []byte(strconv.FormatInt(int64(int16(binary.LittleEndian.Uint16(b))), 10))
		case h == 0xD0:
			b, err := getN(4)
			if err != nil {
				return nil, err
			}
			item = []byte(strconv.FormatInt(int64(int32(binary.LittleEndian.Uint32(b))), 10))
		case h == 0xE0:
			b, err := getN(8)
			if err != nil {
				return nil, err
			}
			item = []byte(strconv.FormatInt(int64(binary.LittleEndian.Uint64(b)), 10))
		case h == 0xF0:
			b, err := getN(3)
			if err != nil {
				return nil, err
			}
			v := int32(uint32(b[0])<<8|uint32(b[1])<<16|uint32(b[2])<<24) >> 8
			item = []byte(strconv.FormatInt(int64(v), 10))
		case h == 0xFE:
			b, err := getN(1)
			if err != nil {
				return nil, err
			}
			item = []byte(strconv.FormatInt(int64(int8(b[0])), 10))
		case h >= 0xF1 && h <= 0xFD:
			item = []byte(strconv.Itoa(int(h&0x0f) - 1))
		default:
			return nil, fmt.Errorf("refrdb: bad ziplist header %#x", h)
		}
		out = append(out, append([]byte{}, item...))
	}
	if cnt != 65535 && cnt != len(out) {
		return nil, fmt.Errorf("refrdb: ziplist count %d != %d entries", cnt, len(out))
	}
	return out, nil
}

func zipmapParse(blob []byte) ([][2][]byte, error) {
	p := 1
	var out [][2][]byte
	rdLen := func() (int, bool, error) {
		if p >= len(blob) {
			return 0, false, errShort
		}
		b := blob[p]
		p++
		if b == 0xFF {
			return 0, true, nil
		}
		if b >= 253 {
			return 0, false, errors.New("refrdb: zipmap big length not modelled")
		}
		return int(b), false, nil
	}
	for {
		kl, end, err := rdLen()
		if err != nil {
			return nil, err
		}
		if end {
			break
		}
		if p+kl > len(blob) {
			return nil, errShort
		}
		k := blob[p : p+kl]
		p += kl
		vl, end, err := rdLen()
		if err != nil || end {
			return nil, errors.New("refrdb: zipmap value missing")
		}
		if p >= len(blob) {
			return nil, errShort
		}
		free := int(blob[p])
		p++
		if p+vl+free > len(blob) {
			return nil, errShort
		}
		v := blob[p : p+vl]
		p += vl + free
		out = append(out, [2][]byte{append([]byte{}, k...), append([]byte{}, v...)})
	}
	return out, nil
}

// DecodeValue parses a serialized value of RDB type t. It returns the value and the bytes consumed.
func DecodeValue(t byte, p []byte) (*rdbgen.Value, int, error) {
	r := &rd{p: p}
	v := &rdbgen.Value{}
	switch t {
	case rdbgen.TString:
		s, err := r.str()
		if err != nil {
			return nil, 0, err
		}
		v.Kind, v.Str = "string", s
	case rdbgen.TList, rdbgen.TSet:
		n, err := r.plainLen()
		if err != nil {
			return nil, 0, err
		}
		v.Kind = "list"
		if t == rdbgen.TSet {
			v.Kind = "set"
		}
		for i := uint64(0); i < n; i++ {
			s, err := r.str()
			if err != nil {
				return nil, 0, err
			}
			v.List = append(v.List, s)
		}
	case rdbgen.TZSet, rdbgen.TZSet2:
		n, err := r.plainLen()
		if err != nil {
			return nil, 0, err
		}
		v.Kind = "zset"
		for i := uint64(0); i < n; i++ {
			m, err := r.str()
			if err != nil {
				return nil, 0, err
			}
			var sc float64
			if t == rdbgen.TZSet2 {
				b, err := r.take(8)
				if err != nil {
					return nil, 0, err
				}
				sc = math.Float64frombits(binary.LittleEndian.Uint64(b))
			} else {
				l, err := r.byte1()
				if err != nil {
					return nil, 0, err
				}
				switch l {
				case 253:
					sc = math.NaN()
				case 254:
					sc = math.Inf(1)
				case 255:
					sc = math.Inf(-1)
				default:
					b, err := r.take(int(l))
					if err != nil {
						return nil, 0, err
					}
					sc, err = strconv.ParseFloat(string(b), 64)
					if err != nil {
						return nil, 0, err
					}
				}
			}
			v.ZSet = append(v.ZSet, rdbgen.ZEntry{Member: m, Score: sc})
		}
	case rdbgen.THash:
		n, err := r.plainLen()
		if err != nil {
			return nil, 0, err
		}
		v.Kind = "hash"
		for i := uint64(0); i < n; i++ {
			f, err := r.str()
			if err != nil {
				return nil, 0, err
			}
			x, err := r.str()
			if err != nil {
				return nil, 0, err
			}
			v.Hash = append(v.Hash, [2][]byte{f, x})
		}
	case rdbgen.TZipmap:
		b, err := r.str()
		if err != nil {
			return nil, 0, err
		}
		v.Kind = "hash"
		if v.Hash, err = zipmapParse(b); err != nil {
			return nil, 0, err
		}
	case rdbgen.TListZip, rdbgen.TZSetZip, rdbgen.THashZip:
		b, err := r.str()
		if err != nil {
			return nil, 0, err
		}
		items, err := zlParse(b)
		if err != nil {
			return nil, 0, err
		}
		switch t {
		case rdbgen.TListZip:
			v.Kind, v.List = "list", items
		case rdbgen.THashZip:
			v.Kind = "hash"
			if len(items)%2 != 0 {
				return nil, 0, errors.New("refrdb: odd hash ziplist")
			}
			for i := 0; i+1 < len(items); i += 2 {
				v.Hash = append(v.Hash, [2][]byte{items[i], items[i+1]})
			}
		default:
			v.Kind = "zset"
			if len(items)%2 != 0 {
				return nil, 0, errors.New("refrdb: odd zset ziplist")
			}
			for i := 0; i+1 < len(items); i += 2 {
				sc, err := strconv.ParseFloat(string(items[i+1]), 64)
				if err != nil {
					return nil, 0, err
				}
				v.ZSet = append(v.ZSet, rdbgen.ZEntry{Member: items[i], Score: sc})
			}
		}
	case rdbgen.TIntset:
		b, err := r.str()
		if err != nil {
			return nil, 0, err
		}
		if len(b) < 8 {
			return nil, 0, errShort
		}
		w := int(binary.LittleEndian.Uint32(b))
		n := int(binary.LittleEndian.Uint32(b[4:]))
		if (w != 2 && w != 4 && w != 8) || len(b) != 8+w*n {
			return nil, 0, errors.New("refrdb: bad intset")
		}
		v.Kind = "set"
		for i := 0; i < n; i++ {
			x := b[8+i*w : 8+(i+1)*w]
			var val int64
			switch w {
			case 2:
				val = int64(int16(binary.LittleEndian.Uint16(x)))
			case 4:
				val = int64(int32(binary.LittleEndian.Uint32(x)))
			default:
				val = int64(binary.LittleEndian.Uint64(x))
			}
			v.List = append(v.List, []byte(strconv.FormatInt(val, 10)))
		}
	case rdbgen.TQuicklist:
		n, err := r.plainLen()
		if err != nil {
			return nil, 0, err
		}
		v.Kind = "list"
		for i := uint64(0); i < n; i++ {
			b, err := r.str()
			if err != nil {
				return nil, 0, err
			}
			items, err := zlParse(b)
			if err != nil {
				return nil, 0, err
			}
			v.List = append(v.List, items...)
		}
	case rdbgen.TStream:
		v.Kind = "stream"
		v.Raw = append([]byte{}, p...)
		return v, len(p), nil
	default:
		return nil, 0, fmt.Errorf("refrdb: unknown type %d", t)
	}
	return v, r.pos, nil
}

// DecodeDump verifies the trailer and decodes a DUMP payload. maxVersion is the highest RDB version
// the (model) server accepts.
func DecodeDump(payload []byte, maxVersion int) (*rdbgen.Value, byte, error) {
	if len(payload) < 11 {
		return nil, 0, errors.New("refrdb: payload shorter than type + trailer")
	}
	body := payload[:len(payload)-8]
	if binary.LittleEndian.Uint64(payload[len(payload)-8:]) != refcrc.CRC64(0, body) {
		return nil, 0, errors.New("refrdb: bad CRC")
	}
	ver := int(binary.LittleEndian.Uint16(payload[len(payload)-10:]))
	if ver > maxVersion {
		return nil, 0, errors.New("refrdb: version too new")
	}
	t := payload[0]
	val := payload[1 : len(payload)-10]
	v, n, err := DecodeValue(t, val)
	if err != nil {
		return nil, t, err
	}
	if n != len(val) {
		return nil, t, fmt.Errorf("refrdb: %d trailing bytes after the value", len(val)-n)
	}
	return v, t, nil
}

// Equal compares logical values: strings and lists by order, sets as multisets, hashes as maps
// (duplicate fields: last wins), zsets as member->score maps with NaN == NaN.
func Equal(a, b *rdbgen.Value) bool {
	if a == nil || b == nil || a.Kind != b.Kind {
		return false
	}
	switch a.Kind {
	case "string":
		return string(a.Str) == string(b.Str)
	case "list":
		if len(a.List) != len(b.List) {
			return false
		}
		for i := range a.List {
			if string(a.List[i]) != string(b.List[i]) {
				return false
			}
		}
		return true
	case "set":
		ma := map[string]int{}
		for _, m := range a.List {
			ma[string(m)] = 1
		}
		mb := map[string]int{}
		for _, m := range b.List {
			mb[string(m)] = 1
		}
		if len(ma) != len(mb) {
			return false
		}
		for k := range ma {
			if mb[k] != 1 {
				return false
			}
		}
		return true
	case "hash":
		ma := map[string]string{}
		for _, p := range a.Hash {
			ma[string(p[0])] = string(p[1])
		}
		mb := map[string]string{}
		for _, p := range b.Hash {
			mb[string(p[0])] = string(p[1])
		}
		if len(ma) != len(mb) {
			return false
		}
		for k, v := range ma {
			if w, ok := mb[k]; !ok || w != v {
				return false
			}
		}
		return true
	case "zset":
		ma := map[string]float64{}
		for _, z := range a.ZSet {
			ma[string(z.Member)] = z.Score
		}
		mb := map[string]float64{}
		for _, z := range b.ZSet {
			mb[string(z.Member)] = z.Score
		}
		if len(ma) != len(mb) {
			return false
		}
		for k, v := range ma {
			w, ok := mb[k]
			if !ok || !(v == w || (math.IsNaN(v) && math.IsNaN(w))) {
				return false
			}
		}
		return true
	case "stream":
		return string(a.Raw) == string(b.Raw)
	}
	return false
}

// SelfTest round-trips generated values of every kind/encoding through rdbgen and refrdb.
func SelfTest(seed uint64, n int) string {
	return selfTest(seed, n)
}
