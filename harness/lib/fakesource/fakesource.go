// Package fakesource is a scripted replication master over loopback TCP: it answers AUTH, REPLCONF,
// PSYNC/SYNC, INFO and CONFIG GET the way the tool needs, writes the RDB and the command stream with a
// chosen fragmentation, records every REPLCONF ACK / PSYNC it receives together with how many stream
// bytes it had written by then, and can drop the replication link and honour (or refuse) a resume.
package fakesource

import (
	"bufio"
	"fmt"
	"net"
	"strconv"
	"strings"
	"sync"
	"time"

	"verif/harness/lib/miniredis"
)

type Ack struct {
	Seq     int
	Value   int64
	Written int64 // stream bytes written (cumulative position) when the ACK was processed
	At      time.Time
	Conn    int
}

type PsyncReq struct {
	Seq     int
	RunID   string
	Offset  int64
	Written int64
	Conn    int
	At      time.Time
}

type WriteEv struct {
	At  time.Time
	Pos int64
}

// WrittenBefore returns the highest stream position written at or before t.
func (s *Source) WrittenBefore(t time.Time) int64 {
	s.mu.Lock()
	defer s.mu.Unlock()
	var pos int64
	for _, w := range s.Writes {
		if w.At.After(t) {
			break
		}
		pos = w.Pos
	}
	return pos
}

type DropEv struct {
	At  time.Time
	Pos int64
}

type Script struct {
	RunID       string
	StartOffset int64  // announced in +FULLRESYNC (stream position 0 has replication offset StartOffset+1)
	ReplyWord   string // FULLRESYNC | fullresync | FullResync ...
	Continue    bool   // first PSYNC is answered with +CONTINUE (resume scenario)
	ContWord    string
	NLBefore    int // keep-alive newlines before the reply line
	NLBetween   int // between reply line and '$'
	RDB         []byte
	Frag        []int         // sizes of successive writes (cycled); empty = all at once
	Gap         time.Duration // pause between writes
	ResumeMode  string        // on a later PSYNC: "continue" (default) | "refuse" | "fullresync"
	HonorFirst  bool          // treat even the first PSYNC as a resume request: CONTINUE iff id and offset fit the kept backlog
	Version     string
}

type Source struct {
	Script   Script
	Password string
	L        net.Listener
	Addr     string

	mu       sync.Mutex
	cond     *sync.Cond
	stream   []byte // whole command stream fed so far
	written  int64  // highest stream position written to any replication connection
	Acks     []Ack
	Psyncs   []PsyncReq
	Syncs    int
	AuthSeen []string
	seq      int
	nconn    int
	repl     net.Conn // current replication connection
	replGen  int
	closed   bool
	dropAt   int64   // drop the link once this many stream bytes were written (-1 = never)
	dropNext []int64 // further drop positions, armed one after the other
	BadAuth  int
	Drops    []DropEv
	Writes   []WriteEv // when which stream position had been handed to the kernel
	role     string    // answered to INFO replication ("" = master); switchable at run time (fail-over)
}

// SetRole changes what the node reports in INFO replication from now on ("master" or "slave").
func (s *Source) SetRole(role string) {
	s.mu.Lock()
	s.role = role
	s.mu.Unlock()
}

func New(sc Script, password string) (*Source, error) {
	l, err := listenRetry()
	if err != nil {
		return nil, err
	}
	if sc.ReplyWord == "" {
		sc.ReplyWord = "FULLRESYNC"
	}
	if sc.ContWord == "" {
		sc.ContWord = "CONTINUE"
	}
	if sc.Version == "" {
		sc.Version = "5.0.7"
	}
	s := &Source{Script: sc, Password: password, L: l, Addr: l.Addr().String(), dropAt: -1}
	s.cond = sync.NewCond(&s.mu)
	go s.accept()
	return s, nil
}

// listenRetry: a loopback port may be unavailable for a moment when tens of thousands of sockets sit in TIME_WAIT.
func listenRetry() (net.Listener, error) {
	var l net.Listener
	var err error
	for i := 0; i < 100; i++ {
		if l, err = net.Listen("tcp", "127.0.0.1:0"); err == nil {
			return l, nil
		}
		time.Sleep(100 * time.Millisecond)
	}
	return nil, err
}

func (s *Source) Close() {
	s.mu.Lock()
	s.closed = true
	if s.repl != nil {
		s.repl.Close()
	}
	s.cond.Broadcast()
	s.mu.Unlock()
	s.L.Close()
}

// Feed appends bytes to the command stream; they are written to the replication link as the plan allows.
func (s *Source) Feed(b []byte) {
	s.mu.Lock()
	s.stream = append(s.stream, b...)
	s.cond.Broadcast()
	s.mu.Unlock()
}

// DropAfter makes the source close the replication link once `n` stream bytes (cumulative) were written.
func (s *Source) DropAfter(n int64) {
	s.mu.Lock()
	s.dropAt = n
	s.cond.Broadcast()
	s.mu.Unlock()
}

// DropAfterEach arms several drops: the link dies at the first position, the resumed link at the second, and so on.
func (s *Source) DropAfterEach(ns ...int64) {
	s.mu.Lock()
	s.dropAt, s.dropNext = ns[0], append([]int64{}, ns[1:]...)
	s.cond.Broadcast()
	s.mu.Unlock()
}

// DropNow closes the replication link.
func (s *Source) DropNow() {
	s.mu.Lock()
	if s.repl != nil {
		s.repl.Close()
		s.repl = nil
	}
	s.mu.Unlock()
}

func (s *Source) Written() int64 {
	s.mu.Lock()
	defer s.mu.Unlock()
	return s.written
}

// DropCount returns how many scripted drops happened so far.
func (s *Source) DropCount() int {
	s.mu.Lock()
	defer s.mu.Unlock()
	return len(s.Drops)
}

func (s *Source) StreamLen() int64 {
	s.mu.Lock()
	defer s.mu.Unlock()
	return int64(len(s.stream))
}

func (s *Source) Snapshot() (acks []Ack, psyncs []PsyncReq) {
	s.mu.Lock()
	defer s.mu.Unlock()
	return append([]Ack{}, s.Acks...), append([]PsyncReq{}, s.Psyncs...)
}

func (s *Source) accept() {
	for {
		c, err := s.L.Accept()
		if err != nil {
			return
		}
		s.mu.Lock()
		s.nconn++
		id := s.nconn
		s.mu.Unlock()
		go s.serve(c, id)
	}
}

func (s *Source) serve(c net.Conn, id int) {
	defer c.Close()
	br := bufio.NewReader(c)
	authed := s.Password == ""
	for {
		argv, _, err := miniredis.ReadCommand(br)
		if err != nil {
			return
		}
		if len(argv) == 0 {
			continue
		}
		name := strings.ToLower(string(argv[0]))
		switch name {
		case "auth", "adminauth":
			pw := ""
			if len(argv) > 1 {
				pw = string(argv[len(argv)-1])
			}
			s.mu.Lock()
			s.AuthSeen = append(s.AuthSeen, pw)
			s.mu.Unlock()
			if pw == s.Password {
				authed = true
				c.Write([]byte("+OK\r\n"))
			} else {
				s.mu.Lock()
				s.BadAuth++
				s.mu.Unlock()
				c.Write([]byte("-ERR invalid password\r\n"))
			}
			continue
		}
		if !authed {
			c.Write([]byte("-NOAUTH Authentication required.\r\n"))
			continue
		}
		switch name {
		case "replconf":
			if len(argv) >= 3 && strings.ToLower(string(argv[1])) == "ack" {
				v, _ := strconv.ParseInt(string(argv[2]), 10, 64)
				s.mu.Lock()
				s.seq++
				s.Acks = append(s.Acks, Ack{Seq: s.seq, Value: v, Written: s.written, At: time.Now(), Conn: id})
				s.mu.Unlock()
				continue // no reply to ACK
			}
			c.Write([]byte("+OK\r\n"))
		case "ping":
			c.Write([]byte("+PONG\r\n"))
		case "select":
			c.Write([]byte("+OK\r\n"))
		case "info":
			sec := "server"
			if len(argv) > 1 {
				sec = strings.ToLower(string(argv[1]))
			}
			body := "# Server\r\nredis_version:" + s.Script.Version + "\r\n"
			if sec == "replication" {
				s.mu.Lock()
				role := s.role
				s.mu.Unlock()
				body = "# Replication\r\nrole:master\r\nconnected_slaves:1\r\nslave0:ip=127.0.0.1,port=0,state=online,offset=1,lag=0\r\nmaster_replid:" + s.Script.RunID + "\r\n"
				if role == "slave" {
					body = "# Replication\r\nrole:slave\r\nmaster_host:127.0.0.1\r\nmaster_port:1\r\nmaster_link_status:up\r\nmaster_replid:" + s.Script.RunID + "\r\n"
				}
			} else if sec == "keyspace" {
				body = "# Keyspace\r\n"
			}
			c.Write([]byte(fmt.Sprintf("$%d\r\n%s\r\n", len(body), body)))
		case "config":
			c.Write([]byte("*2\r\n$11\r\nrdbchecksum\r\n$3\r\nyes\r\n"))
		case "psync":
			runid, off := "", int64(0)
			if len(argv) >= 3 {
				runid = string(argv[1])
				off, _ = strconv.ParseInt(string(argv[2]), 10, 64)
			}
			s.mu.Lock()
			s.seq++
			first := len(s.Psyncs) == 0
			s.Psyncs = append(s.Psyncs, PsyncReq{Seq: s.seq, RunID: runid, Offset: off, Written: s.written, Conn: id, At: time.Now()})
			s.mu.Unlock()
			if first && !s.Script.HonorFirst {
				s.firstPsync(c, id)
			} else {
				s.laterPsync(c, id, runid, off)
			}
			// keep reading ACKs on this connection
		case "sync":
			s.mu.Lock()
			s.Syncs++
			s.mu.Unlock()
			s.sendFull(c, id, false)
		default:
			c.Write([]byte("+OK\r\n"))
		}
	}
}

func (s *Source) firstPsync(c net.Conn, id int) {
	sc := s.Script
	if sc.Continue {
		c.Write([]byte(strings.Repeat("\n", sc.NLBefore) + "+" + sc.ContWord + "\r\n"))
		s.startStream(c, id, 0)
		return
	}
	s.sendFull(c, id, true)
}

func (s *Source) sendFull(c net.Conn, id int, psync bool) {
	sc := s.Script
	head := strings.Repeat("\n", sc.NLBefore)
	if psync {
		head += fmt.Sprintf("+%s %s %d\r\n", sc.ReplyWord, sc.RunID, sc.StartOffset)
	}
	head += strings.Repeat("\n", sc.NLBetween)
	head += fmt.Sprintf("$%d\r\n", len(sc.RDB))
	// header and RDB go out under the fragmentation plan as one byte sequence, the stream follows seamlessly
	go s.writer(c, id, append([]byte(head), sc.RDB...), 0)
}

func (s *Source) laterPsync(c net.Conn, id int, runid string, off int64) {
	sc := s.Script
	switch sc.ResumeMode {
	case "refuse":
		c.Write([]byte("-ERR Can't SYNC while not connected with my master\r\n"))
		return
	case "fullresync":
		s.sendFull(c, id, true)
		return
	}
	pos := off - 1 - sc.StartOffset
	s.mu.Lock()
	n := int64(len(s.stream))
	s.mu.Unlock()
	if runid != sc.RunID || pos < 0 || pos > n {
		// what a real master does with an unknown id / unavailable offset: full resync
		s.sendFull(c, id, true)
		return
	}
	c.Write([]byte("+" + sc.ContWord + "\r\n"))
	s.startStream(c, id, pos)
}

func (s *Source) startStream(c net.Conn, id int, from int64) {
	go s.writer(c, id, nil, from)
}

// writer sends prefix (header+RDB) and then the command stream from position `from`, following the plan.
func (s *Source) writer(c net.Conn, id int, prefix []byte, from int64) {
	sc := s.Script
	s.mu.Lock()
	s.repl = c
	s.replGen++
	gen := s.replGen
	s.mu.Unlock()
	k := 0
	next := func(avail int) int {
		if len(sc.Frag) == 0 {
			return avail
		}
		n := sc.Frag[k%len(sc.Frag)]
		k++
		if n <= 0 || n > avail {
			n = avail
		}
		return n
	}
	for len(prefix) > 0 {
		n := next(len(prefix))
		if _, err := c.Write(prefix[:n]); err != nil {
			return
		}
		prefix = prefix[n:]
		if sc.Gap > 0 {
			time.Sleep(sc.Gap)
		}
	}
	pos := from
	for {
		s.mu.Lock()
		for !s.closed && s.replGen == gen && int64(len(s.stream)) <= pos && !(s.dropAt >= 0 && pos >= s.dropAt) {
			s.cond.Wait()
		}
		if s.closed || s.replGen != gen {
			s.mu.Unlock()
			return
		}
		if s.dropAt >= 0 && pos >= s.dropAt {
			s.dropAt = -1
			if len(s.dropNext) > 0 {
				s.dropAt, s.dropNext = s.dropNext[0], s.dropNext[1:]
			}
			s.repl = nil
			s.Drops = append(s.Drops, DropEv{At: time.Now(), Pos: pos})
			s.mu.Unlock()
			c.Close()
			return
		}
		avail := int(int64(len(s.stream)) - pos)
		if s.dropAt >= 0 && int64(avail) > s.dropAt-pos {
			avail = int(s.dropAt - pos)
		}
		if avail <= 0 {
			s.mu.Unlock()
			return
		}
		n := next(avail)
		chunk := append([]byte{}, s.stream[pos:pos+int64(n)]...)
		s.mu.Unlock()
		if _, err := c.Write(chunk); err != nil {
			return
		}
		pos += int64(n)
		s.mu.Lock()
		if pos > s.written {
			s.written = pos
			s.Writes = append(s.Writes, WriteEv{At: time.Now(), Pos: pos})
		}
		s.mu.Unlock()
		if sc.Gap > 0 {
			time.Sleep(sc.Gap)
		}
	}
}
