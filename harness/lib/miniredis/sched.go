package miniredis

import (
	"sync"
	"time"

	"verif/harness/lib/prng"
)

// Scheduler decides which of the commands pending on different connections is applied next. The tool's
// workers wait for each reply, so choosing the release order chooses the interleaving.
type Scheduler struct {
	mu      sync.Mutex
	pending map[int]*pend
	Policy  string // random | roundrobin | starve | newest | oldest
	Rng     *prng.R
	Starve  int   // connection id starved under "starve" (0 = lowest id seen)
	Order   []int // released connection ids in order (interleaving signature)
	MaxPend int
	last    int
	seq     int
	stop    chan struct{}
	// Hold, when set, is asked for every pending command; returning true keeps it back for now
	Hold func(conn int, argv [][]byte, othersPending int) bool
	// Active returns the number of connections that may still send commands (the scheduler releases as soon as
	// that many are pending, or after a short settle time)
	Active func() int
}

type pend struct {
	ch   chan struct{}
	argv [][]byte
	seq  int
	at   time.Time
}

func NewScheduler(policy string, rng *prng.R) *Scheduler {
	s := &Scheduler{pending: map[int]*pend{}, Policy: policy, Rng: rng, stop: make(chan struct{})}
	go s.loop()
	return s
}

func (s *Scheduler) Stop() { close(s.stop) }

// Gate blocks the calling connection until the scheduler releases its command.
func (s *Scheduler) Gate(conn int, argv [][]byte) {
	name := lower(argv[0])
	if name == "auth" || name == "info" || name == "ping" {
		return
	}
	p := &pend{ch: make(chan struct{}), argv: argv, at: time.Now()}
	s.mu.Lock()
	s.seq++
	p.seq = s.seq
	s.pending[conn] = p
	if len(s.pending) > s.MaxPend {
		s.MaxPend = len(s.pending)
	}
	s.mu.Unlock()
	select {
	case <-p.ch:
	case <-s.stop:
	}
}

func (s *Scheduler) loop() {
	for {
		select {
		case <-s.stop:
			return
		default:
		}
		s.mu.Lock()
		n := len(s.pending)
		ready := false
		if n > 0 {
			want := 0
			if s.Active != nil {
				want = s.Active()
			}
			oldest := time.Now()
			for _, p := range s.pending {
				if p.at.Before(oldest) {
					oldest = p.at
				}
			}
			ready = (want > 0 && n >= want) || time.Since(oldest) > 1500*time.Microsecond
		}
		if ready {
			s.release()
		}
		s.mu.Unlock()
		if !ready {
			time.Sleep(100 * time.Microsecond)
		}
	}
}

// release picks one pending command by policy (lock held).
func (s *Scheduler) release() {
	var ids []int
	for id, p := range s.pending {
		if s.Hold != nil && s.Hold(id, p.argv, len(s.pending)-1) {
			continue
		}
		ids = append(ids, id)
	}
	if len(ids) == 0 {
		// everything is held: wait, but never longer than 30 s so that nothing can hang for good
		for id, p := range s.pending {
			if time.Since(p.at) > 30*time.Second {
				ids = append(ids, id)
			}
		}
		if len(ids) == 0 {
			return
		}
	}
	// deterministic base order
	for i := 1; i < len(ids); i++ {
		for j := i; j > 0 && ids[j] < ids[j-1]; j-- {
			ids[j], ids[j-1] = ids[j-1], ids[j]
		}
	}
	pick := ids[0]
	switch s.Policy {
	case "random":
		pick = ids[s.Rng.Intn(len(ids))]
	case "roundrobin":
		pick = ids[0]
		for _, id := range ids {
			if id > s.last {
				pick = id
				break
			}
		}
	case "starve":
		starve := s.Starve
		if starve == 0 {
			starve = ids[0]
		}
		if len(ids) > 1 {
			var rest []int
			for _, id := range ids {
				if id != starve {
					rest = append(rest, id)
				}
			}
			pick = rest[s.Rng.Intn(len(rest))]
		}
	case "newest":
		for _, id := range ids {
			if s.pending[id].seq > s.pending[pick].seq {
				pick = id
			}
		}
	case "oldest":
		for _, id := range ids {
			if s.pending[id].seq < s.pending[pick].seq {
				pick = id
			}
		}
	}
	p := s.pending[pick]
	delete(s.pending, pick)
	s.last = pick
	s.Order = append(s.Order, pick)
	close(p.ch)
}

// OrderSnapshot returns the release order so far.
func (s *Scheduler) OrderSnapshot() []int {
	s.mu.Lock()
	defer s.mu.Unlock()
	return append([]int{}, s.Order...)
}

// OpenConns reports the number of open client connections of a TCP front end.
func (t *TCP) OpenConns() int {
	t.mu.Lock()
	defer t.mu.Unlock()
	return len(t.conns)
}
