// Package miniredis is the model Redis used as target/source by the monitors: an executable
// specification of the command subset the tool depends on, with the reply types and error strings the
// tool string-matches. Three front ends share the core: an in-process redigo.Conn, a TCP server with
// per-connection logs and an optional scheduler, and replay of a recorded byte stream.
package miniredis

import (
	"bytes"
	"errors"
	"fmt"
	"math"
	"runtime"
	"sort"
	"strconv"
	"strings"
	"sync"
	"time"

	"verif/harness/lib/prng"
	"verif/harness/lib/rdbgen"
	"verif/harness/lib/refrdb"
)

type Status string // simple string reply
type ErrReply string

func (e ErrReply) Error() string { return string(e) }

type Entry struct {
	Val      *rdbgen.Value
	ExpireAt int64 // absolute ms on the server clock, 0 = none
	Idle     int64
	Freq     int64
	HasIdle  bool
	HasFreq  bool
	Payload  []byte // when set, DUMP returns exactly this
	Writes   int    // number of commands that created/modified the key (exactly-once checks)
}

type Logged struct {
	Seq   int
	Conn  int
	DB    int
	Name  string // lower case
	Args  [][]byte
	Reply string // short class: ok err int bulk nil array queued
	InTx  bool   // applied as part of an EXEC
	At    time.Time
}

func (l Logged) String() string {
	s := l.Name
	for _, a := range l.Args {
		if len(a) > 40 {
			s += fmt.Sprintf(" %q...(%d)", a[:40], len(a))
		} else {
			s += fmt.Sprintf(" %q", a)
		}
	}
	return fmt.Sprintf("c%d db%d %s", l.Conn, l.DB, s)
}

type dropConn struct{}

// DropConn as a Fault's Reply: the command is not applied and the server closes the client's connection without
// answering (an idle timeout, a fail-over, a kill).
var DropConn = dropConn{}

type Fault struct {
	Cmd   string // lower-case command name
	Key   string // first argument must equal this ("" = any)
	Nth   int    // fire on the Nth match (1-based); 0 = every match
	Reply interface{}
	seen  int
}

type Server struct {
	Mu  sync.Mutex
	DBs map[int]map[string]*Entry
	Now func() int64

	Password       string
	Version        string
	MaxDumpVersion int           // payload versions above are rejected
	MaxValueType   int           // value types above are rejected with "ERR Bad data format"
	RejectTypes    map[byte]bool // value types this (older) target does not know: "ERR Bad data format"
	NoReplace      bool          // RESTORE ... REPLACE unsupported
	BusyMsg        string        // reply for RESTORE on an existing key
	Role           string        // info replication role
	ExtraInfo      string        // appended to INFO replication
	DumpVersion    uint16
	RunID          string

	Faults    []*Fault
	BeforeCmd func(s *Session, name string, args [][]byte)
	ScanPages map[int]map[int64]ScanPage // db -> cursor -> page (scripted SCAN)
	KeepLog   bool
	Log       []Logged
	Scripts   [][]byte
	seq       int
	nconn     int
	rng       *prng.R
}

type ScanPage struct {
	Next int64
	Keys []string
}

// TypesUnknownTo lists the value types a server of the given version cannot load.
func TypesUnknownTo(version string) map[byte]bool {
	m := map[byte]bool{}
	if cmpVersion(version, "3.2") < 0 {
		m[14] = true
	}
	if cmpVersion(version, "4.0") < 0 {
		m[5] = true
	}
	if cmpVersion(version, "5.0") < 0 {
		m[15] = true
	}
	return m
}

func NewServer() *Server {
	return &Server{DBs: map[int]map[string]*Entry{}, Now: func() int64 { return time.Now().UnixNano() / 1e6 }, Version: "5.0.7",
		MaxDumpVersion: 9, MaxValueType: 15, BusyMsg: "BUSYKEY Target key name already exists.", Role: "master", DumpVersion: 9,
		RunID: "0123456789abcdef0123456789abcdef01234567", KeepLog: true, rng: prng.New(7)}
}

type Session struct {
	Srv     *Server
	ID      int
	DB      int
	authed  bool
	inMulti bool
	queued  [][][]byte
	Closed  bool
}

func (s *Server) NewSession() *Session {
	s.Mu.Lock()
	defer s.Mu.Unlock()
	s.nconn++
	return &Session{Srv: s, ID: s.nconn}
}

func (s *Server) db(n int) map[string]*Entry {
	d, ok := s.DBs[n]
	if !ok {
		d = map[string]*Entry{}
		s.DBs[n] = d
	}
	return d
}

// live returns the entry if present and not expired (lazy expiry).
func (s *Server) live(db int, key string) *Entry {
	e := s.db(db)[key]
	if e == nil {
		return nil
	}
	if e.ExpireAt != 0 && e.ExpireAt <= s.Now() {
		delete(s.db(db), key)
		return nil
	}
	return e
}

// Raw returns the stored entry ignoring expiry (for oracles).
func (s *Server) Raw(db int, key string) *Entry {
	s.Mu.Lock()
	defer s.Mu.Unlock()
	return s.db(db)[key]
}

// Put stores a value directly (test set-up).
func (s *Server) Put(db int, key string, v *rdbgen.Value, expireAt int64) *Entry {
	s.Mu.Lock()
	defer s.Mu.Unlock()
	e := &Entry{Val: v, ExpireAt: expireAt}
	s.db(db)[key] = e
	return e
}

func lower(b []byte) string { return strings.ToLower(string(b)) }

func wrongType() ErrReply {
	return ErrReply("WRONGTYPE Operation against a key holding the wrong kind of value")
}

func replyClass(r interface{}) string {
	switch x := r.(type) {
	case Status:
		if x == "QUEUED" {
			return "queued"
		}
		return "ok"
	case ErrReply:
		return "err"
	case int64:
		return "int"
	case []byte:
		return "bulk"
	case nil:
		return "nil"
	case dropConn:
		return "drop"
	}
	return "array"
}

// Do executes one command on the session (thread-safe) and returns the reply.
func (ss *Session) Do(argv [][]byte) interface{} {
	s := ss.Srv
	s.Mu.Lock()
	defer s.Mu.Unlock()
	return ss.do(argv)
}

func (ss *Session) do(argv [][]byte) interface{} {
	s := ss.Srv
	if len(argv) == 0 {
		return ErrReply("ERR empty command")
	}
	name := lower(argv[0])
	args := argv[1:]
	if s.BeforeCmd != nil {
		s.BeforeCmd(ss, name, args)
	}
	var reply interface{}
	logIt := func(inTx bool) {
		if s.KeepLog {
			s.seq++
			cp := make([][]byte, len(args))
			for i := range args {
				cp[i] = append([]byte{}, args[i]...)
			}
			s.Log = append(s.Log, Logged{Seq: s.seq, Conn: ss.ID, DB: ss.DB, Name: name, Args: cp, Reply: replyClass(reply), InTx: inTx, At: time.Now()})
		}
	}
	if s.Password != "" && !ss.authed && name != "auth" {
		reply = ErrReply("NOAUTH Authentication required.")
		logIt(false)
		return reply
	}
	if ss.inMulti && name != "exec" && name != "discard" && name != "multi" {
		ss.queued = append(ss.queued, argv)
		reply = Status("QUEUED")
		logIt(false)
		return reply
	}
	switch name {
	case "multi":
		if ss.inMulti {
			reply = ErrReply("ERR MULTI calls can not be nested")
		} else {
			ss.inMulti = true
			ss.queued = nil
			reply = Status("OK")
		}
	case "discard":
		ss.inMulti, ss.queued = false, nil
		reply = Status("OK")
	case "exec":
		if !ss.inMulti {
			reply = ErrReply("ERR EXEC without MULTI")
			break
		}
		ss.inMulti = false
		q := ss.queued
		ss.queued = nil
		logIt(false)
		out := make([]interface{}, 0, len(q))
		for _, c := range q {
			r := ss.apply(lower(c[0]), c[1:])
			reply = r
			name, args = lower(c[0]), c[1:]
			logIt(true)
			out = append(out, r)
		}
		return out
	default:
		reply = ss.apply(name, args)
	}
	logIt(false)
	return reply
}

// Disconnect discards an open transaction (what Redis does when a client goes away).
func (ss *Session) Disconnect() {
	ss.Srv.Mu.Lock()
	ss.inMulti, ss.queued, ss.Closed = false, nil, true
	ss.Srv.Mu.Unlock()
}

func (s *Server) fault(name string, args [][]byte) (interface{}, bool) {
	for _, f := range s.Faults {
		if f.Cmd != name {
			continue
		}
		if f.Key != "" && (len(args) == 0 || string(args[0]) != f.Key) {
			continue
		}
		f.seen++
		if f.Nth == 0 || f.seen == f.Nth {
			return f.Reply, true
		}
	}
	return nil, false
}

func atoi(b []byte) (int64, bool) {
	n, err := strconv.ParseInt(string(b), 10, 64)
	return n, err == nil
}

// apply runs one command. A command with too few arguments for the model's handler is answered the way Redis
// answers an arity error (Redis checks arity before touching any data).
func (ss *Session) apply(name string, args [][]byte) (reply interface{}) {
	defer func() {
		if x := recover(); x != nil {
			if _, ok := x.(runtime.Error); !ok {
				panic(x)
			}
			reply = ErrReply("ERR wrong number of arguments for '" + name + "' command")
		}
	}()
	return ss.apply0(name, args)
}

func (ss *Session) apply0(name string, args [][]byte) interface{} {
	s := ss.Srv
	if r, ok := s.fault(name, args); ok {
		return r
	}
	db := s.db(ss.DB)
	need := func(n int) bool { return len(args) >= n }
	getKind := func(key, kind string, create bool) (*Entry, interface{}) {
		e := s.live(ss.DB, key)
		if e == nil {
			if !create {
				return nil, nil
			}
			e = &Entry{Val: &rdbgen.Value{Kind: kind}}
			db[key] = e
			return e, nil
		}
		if e.Val.Kind != kind {
			return nil, wrongType()
		}
		return e, nil
	}
	touch := func(e *Entry) {
		e.Payload = nil
		e.Writes++
	}
	switch name {
	case "ping":
		return Status("PONG")
	case "auth":
		if need(1) && string(args[len(args)-1]) == s.Password {
			ss.authed = true
			return Status("OK")
		}
		if s.Password == "" {
			return ErrReply("ERR Client sent AUTH, but no password is set")
		}
		return ErrReply("ERR invalid password")
	case "select":
		if !need(1) {
			return ErrReply("ERR wrong number of arguments for 'select' command")
		}
		n, ok := atoi(args[0])
		if !ok || n < 0 || n > 1023 {
			return ErrReply("ERR DB index is out of range")
		}
		ss.DB = int(n)
		return Status("OK")
	case "info":
		sec := ""
		if need(1) {
			sec = lower(args[0])
		}
		return []byte(s.info(sec))
	case "config":
		if need(2) && lower(args[0]) == "get" {
			switch lower(args[1]) {
			case "rdbchecksum":
				return []interface{}{[]byte("rdbchecksum"), []byte("yes")}
			case "databases":
				return []interface{}{[]byte("databases"), []byte("1024")}
			}
			return []interface{}{}
		}
		return Status("OK")
	case "replconf":
		return Status("OK")
	case "exists":
		n := int64(0)
		for _, k := range args {
			if s.live(ss.DB, string(k)) != nil {
				n++
			}
		}
		return n
	case "del", "unlink":
		n := int64(0)
		for _, k := range args {
			if s.live(ss.DB, string(k)) != nil {
				delete(db, string(k))
				n++
			}
		}
		return n
	case "type":
		if e := s.live(ss.DB, string(args[0])); e != nil {
			return Status(e.Val.Kind)
		}
		return Status("none")
	case "dbsize":
		n := int64(0)
		for k := range db {
			if s.live(ss.DB, k) != nil {
				n++
			}
		}
		return n
	case "flushall":
		s.DBs = map[int]map[string]*Entry{}
		return Status("OK")
	case "flushdb":
		s.DBs[ss.DB] = map[string]*Entry{}
		return Status("OK")
	case "set":
		if !need(2) {
			return ErrReply("ERR wrong number of arguments for 'set' command")
		}
		e := &Entry{Val: &rdbgen.Value{Kind: "string", Str: append([]byte{}, args[1]...)}}
		if old := s.live(ss.DB, string(args[0])); old != nil {
			e.Writes = old.Writes
		}
		for i := 2; i+1 < len(args); i += 2 {
			n, _ := atoi(args[i+1])
			switch lower(args[i]) {
			case "ex":
				e.ExpireAt = s.Now() + n*1000
			case "px":
				e.ExpireAt = s.Now() + n
			}
		}
		e.Writes++
		db[string(args[0])] = e
		return Status("OK")
	case "mset":
		if len(args) == 0 || len(args)%2 != 0 {
			return ErrReply("ERR wrong number of arguments for MSET")
		}
		for i := 0; i+1 < len(args); i += 2 {
			db[string(args[i])] = &Entry{Val: &rdbgen.Value{Kind: "string", Str: append([]byte{}, args[i+1]...)}, Writes: 1}
		}
		return Status("OK")
	case "get":
		e, werr := getKind(string(args[0]), "string", false)
		if werr != nil {
			return werr
		}
		if e == nil {
			return nil
		}
		return e.Val.Str
	case "append":
		e, werr := getKind(string(args[0]), "string", true)
		if werr != nil {
			return werr
		}
		e.Val.Str = append(e.Val.Str, args[1]...)
		touch(e)
		return int64(len(e.Val.Str))
	case "incr", "decr", "incrby", "decrby":
		e, werr := getKind(string(args[0]), "string", true)
		if werr != nil {
			return werr
		}
		cur := int64(0)
		if len(e.Val.Str) > 0 {
			var ok bool
			if cur, ok = atoi(e.Val.Str); !ok {
				return ErrReply("ERR value is not an integer or out of range")
			}
		}
		d := int64(1)
		if name == "incrby" || name == "decrby" {
			if !need(2) {
				return ErrReply("ERR wrong number of arguments")
			}
			d, _ = atoi(args[1])
		}
		if name == "decr" || name == "decrby" {
			d = -d
		}
		cur += d
		e.Val.Str = []byte(strconv.FormatInt(cur, 10))
		touch(e)
		return cur
	case "rpush", "lpush":
		e, werr := getKind(string(args[0]), "list", true)
		if werr != nil {
			return werr
		}
		for _, a := range args[1:] {
			if name == "rpush" {
				e.Val.List = append(e.Val.List, append([]byte{}, a...))
			} else {
				e.Val.List = append([][]byte{append([]byte{}, a...)}, e.Val.List...)
			}
		}
		touch(e)
		return int64(len(e.Val.List))
	case "lpop", "rpop":
		e, werr := getKind(string(args[0]), "list", false)
		if werr != nil {
			return werr
		}
		if e == nil || len(e.Val.List) == 0 {
			return nil
		}
		var x []byte
		if name == "lpop" {
			x, e.Val.List = e.Val.List[0], e.Val.List[1:]
		} else {
			x, e.Val.List = e.Val.List[len(e.Val.List)-1], e.Val.List[:len(e.Val.List)-1]
		}
		touch(e)
		if len(e.Val.List) == 0 {
			delete(db, string(args[0]))
		}
		return x
	case "lrange":
		e, werr := getKind(string(args[0]), "list", false)
		if werr != nil {
			return werr
		}
		out := []interface{}{}
		if e != nil {
			for _, x := range e.Val.List {
				out = append(out, x)
			}
		}
		return out
	case "sadd":
		e, werr := getKind(string(args[0]), "set", true)
		if werr != nil {
			return werr
		}
		n := int64(0)
		for _, a := range args[1:] {
			found := false
			for _, m := range e.Val.List {
				if bytes.Equal(m, a) {
					found = true
				}
			}
			if !found {
				e.Val.List = append(e.Val.List, append([]byte{}, a...))
				n++
			}
		}
		touch(e)
		return n
	case "srem":
		e, werr := getKind(string(args[0]), "set", false)
		if werr != nil {
			return werr
		}
		n := int64(0)
		if e != nil {
			for _, a := range args[1:] {
				for i, m := range e.Val.List {
					if bytes.Equal(m, a) {
						e.Val.List = append(e.Val.List[:i], e.Val.List[i+1:]...)
						n++
						break
					}
				}
			}
			touch(e)
			if len(e.Val.List) == 0 {
				delete(db, string(args[0]))
			}
		}
		return n
	case "zadd":
		if len(args) < 3 || len(args)%2 != 1 {
			return ErrReply("ERR syntax error")
		}
		type pair struct {
			sc float64
			m  []byte
		}
		var ps []pair
		for i := 1; i+1 < len(args); i += 2 {
			f, err := strconv.ParseFloat(string(args[i]), 64)
			if err != nil || math.IsNaN(f) {
				return ErrReply("ERR value is not a valid float")
			}
			ps = append(ps, pair{f, args[i+1]})
		}
		e, werr := getKind(string(args[0]), "zset", true)
		if werr != nil {
			return werr
		}
		n := int64(0)
		for _, p := range ps {
			found := false
			for i := range e.Val.ZSet {
				if bytes.Equal(e.Val.ZSet[i].Member, p.m) {
					e.Val.ZSet[i].Score = p.sc
					found = true
				}
			}
			if !found {
				e.Val.ZSet = append(e.Val.ZSet, rdbgen.ZEntry{Member: append([]byte{}, p.m...), Score: p.sc})
				n++
			}
		}
		touch(e)
		return n
	case "hset", "hmset":
		if len(args) < 3 || len(args)%2 != 1 {
			return ErrReply("ERR wrong number of arguments for '" + name + "' command")
		}
		e, werr := getKind(string(args[0]), "hash", true)
		if werr != nil {
			return werr
		}
		n := int64(0)
		for i := 1; i+1 < len(args); i += 2 {
			found := false
			for j := range e.Val.Hash {
				if bytes.Equal(e.Val.Hash[j][0], args[i]) {
					e.Val.Hash[j][1] = append([]byte{}, args[i+1]...)
					found = true
				}
			}
			if !found {
				e.Val.Hash = append(e.Val.Hash, [2][]byte{append([]byte{}, args[i]...), append([]byte{}, args[i+1]...)})
				n++
			}
		}
		touch(e)
		if name == "hmset" {
			return Status("OK")
		}
		return n
	case "hdel":
		e, werr := getKind(string(args[0]), "hash", false)
		if werr != nil {
			return werr
		}
		n := int64(0)
		if e != nil {
			for _, f := range args[1:] {
				for j := range e.Val.Hash {
					if bytes.Equal(e.Val.Hash[j][0], f) {
						e.Val.Hash = append(e.Val.Hash[:j], e.Val.Hash[j+1:]...)
						n++
						break
					}
				}
			}
			touch(e)
			if len(e.Val.Hash) == 0 {
				delete(db, string(args[0]))
			}
		}
		return n
	case "hgetall":
		e, werr := getKind(string(args[0]), "hash", false)
		if werr != nil {
			return werr
		}
		out := []interface{}{}
		if e != nil {
			for _, p := range e.Val.Hash {
				out = append(out, p[0], p[1])
			}
		}
		return out
	case "rename":
		e := s.live(ss.DB, string(args[0]))
		if e == nil {
			return ErrReply("ERR no such key")
		}
		delete(db, string(args[0]))
		db[string(args[1])] = e
		return Status("OK")
	case "expire", "pexpire", "expireat", "pexpireat":
		e := s.live(ss.DB, string(args[0]))
		if e == nil {
			return int64(0)
		}
		n, ok := atoi(args[1])
		if !ok {
			return ErrReply("ERR value is not an integer or out of range")
		}
		switch name {
		case "expire":
			e.ExpireAt = s.Now() + n*1000
		case "pexpire":
			e.ExpireAt = s.Now() + n
		case "expireat":
			e.ExpireAt = n * 1000
		default:
			e.ExpireAt = n
		}
		if e.ExpireAt <= 0 {
			e.ExpireAt = 1
		}
		return int64(1)
	case "persist":
		e := s.live(ss.DB, string(args[0]))
		if e == nil || e.ExpireAt == 0 {
			return int64(0)
		}
		e.ExpireAt = 0
		return int64(1)
	case "pttl", "ttl":
		e := s.live(ss.DB, string(args[0]))
		if e == nil {
			return int64(-2)
		}
		if e.ExpireAt == 0 {
			return int64(-1)
		}
		d := e.ExpireAt - s.Now()
		if name == "ttl" {
			d = (d + 500) / 1000
		}
		return d
	case "script":
		if need(2) && lower(args[0]) == "load" {
			s.Scripts = append(s.Scripts, append([]byte{}, args[1]...))
			return []byte("da39a3ee5e6b4b0d3255bfef95601890afd80709")
		}
		return Status("OK")
	case "eval", "evalsha", "publish":
		return int64(0)
	case "dump":
		e := s.live(ss.DB, string(args[0]))
		if e == nil {
			return nil
		}
		if e.Payload != nil {
			return e.Payload
		}
		w := &rdbgen.W{Rng: s.rng}
		t, _ := rdbgen.EncodeValue(w, e.Val, "")
		return rdbgen.DumpPayload(t, w.Bytes(), s.DumpVersion)
	case "restore", "restore-asking":
		return ss.restore(args)
	case "scan":
		return ss.scan(args)
	case "psync", "sync":
		return ErrReply("ERR model target does not replicate")
	}
	// unknown command: accepted and recorded (the log is the oracle's input)
	return Status("OK")
}

func (ss *Session) restore(args [][]byte) interface{} {
	s := ss.Srv
	if len(args) < 3 {
		return ErrReply("ERR wrong number of arguments for 'restore' command")
	}
	key := string(args[0])
	ttl, ok := atoi(args[1])
	if !ok || ttl < 0 {
		return ErrReply("ERR Invalid TTL value, must be >= 0")
	}
	replace, absttl := false, false
	e := &Entry{}
	for i := 3; i < len(args); i++ {
		switch strings.ToUpper(string(args[i])) {
		case "REPLACE":
			if s.NoReplace {
				return ErrReply("ERR syntax error")
			}
			replace = true
		case "ABSTTL":
			absttl = true
		case "IDLETIME":
			if i+1 >= len(args) {
				return ErrReply("ERR syntax error")
			}
			n, ok := atoi(args[i+1])
			if !ok || n < 0 {
				return ErrReply("ERR Invalid IDLETIME value, must be >= 0")
			}
			if cmpVersion(s.Version, "5.0") < 0 {
				return ErrReply("ERR syntax error")
			}
			e.Idle, e.HasIdle = n, true
			i++
		case "FREQ":
			if i+1 >= len(args) {
				return ErrReply("ERR syntax error")
			}
			n, ok := atoi(args[i+1])
			if !ok || n < 0 || n > 255 {
				return ErrReply("ERR Invalid FREQ value, must be >= 0 and <= 255")
			}
			if cmpVersion(s.Version, "5.0") < 0 {
				return ErrReply("ERR syntax error")
			}
			e.Freq, e.HasFreq = n, true
			i++
		default:
			return ErrReply("ERR syntax error")
		}
	}
	if !replace && s.live(ss.DB, key) != nil {
		return ErrReply(s.BusyMsg)
	}
	payload := args[2]
	if len(payload) >= 1 && (int(payload[0]) > s.MaxValueType || s.RejectTypes[payload[0]]) {
		return ErrReply("ERR Bad data format")
	}
	v, _, err := refrdb.DecodeDump(payload, s.MaxDumpVersion)
	if err != nil {
		if strings.Contains(err.Error(), "CRC") || strings.Contains(err.Error(), "version") || strings.Contains(err.Error(), "shorter") {
			return ErrReply("ERR DUMP payload version or checksum are wrong")
		}
		return ErrReply("ERR Bad data format")
	}
	e.Val = v
	e.Payload = append([]byte{}, payload...)
	if ttl != 0 {
		if absttl {
			e.ExpireAt = ttl
		} else {
			e.ExpireAt = s.Now() + ttl
		}
	}
	if old := s.db(ss.DB)[key]; old != nil {
		e.Writes = old.Writes
	}
	e.Writes++
	s.db(ss.DB)[key] = e
	return Status("OK")
}

func (ss *Session) scan(args [][]byte) interface{} {
	s := ss.Srv
	cur, _ := atoi(args[0])
	if pages, ok := s.ScanPages[ss.DB]; ok {
		p, ok := pages[cur]
		if !ok {
			return []interface{}{[]byte("0"), []interface{}{}}
		}
		ks := make([]interface{}, len(p.Keys))
		for i, k := range p.Keys {
			ks[i] = []byte(k)
		}
		return []interface{}{[]byte(strconv.FormatInt(p.Next, 10)), ks}
	}
	var keys []string
	for k := range s.db(ss.DB) {
		if s.live(ss.DB, k) != nil {
			keys = append(keys, k)
		}
	}
	sort.Strings(keys)
	ks := make([]interface{}, len(keys))
	for i, k := range keys {
		ks[i] = []byte(k)
	}
	return []interface{}{[]byte("0"), ks}
}

func (s *Server) info(sec string) string {
	switch sec {
	case "keyspace":
		var dbs []int
		for n, d := range s.DBs {
			if len(d) > 0 {
				dbs = append(dbs, n)
			}
		}
		sort.Ints(dbs)
		out := "# Keyspace\r\n"
		for _, n := range dbs {
			exp := 0
			for _, e := range s.DBs[n] {
				if e.ExpireAt != 0 {
					exp++
				}
			}
			out += fmt.Sprintf("db%d:keys=%d,expires=%d,avg_ttl=0\r\n", n, len(s.DBs[n]), exp)
		}
		return out
	case "replication":
		return "# Replication\r\nrole:" + s.Role + "\r\nconnected_slaves:0\r\nmaster_replid:" + s.RunID + "\r\nmaster_repl_offset:0\r\n" + s.ExtraInfo
	}
	return "# Server\r\nredis_version:" + s.Version + "\r\nredis_mode:standalone\r\nos:Linux\r\n"
}

// cmpVersion compares dotted versions numerically (missing parts are 0).
func cmpVersion(a, b string) int {
	as, bs := strings.Split(a, "."), strings.Split(b, ".")
	for i := 0; i < 3; i++ {
		x, y := 0, 0
		if i < len(as) {
			x, _ = strconv.Atoi(as[i])
		}
		if i < len(bs) {
			y, _ = strconv.Atoi(bs[i])
		}
		if x != y {
			if x < y {
				return -1
			}
			return 1
		}
	}
	return 0
}

// Snapshot returns a deep copy of the keyspace (live and expired entries alike).
func (s *Server) Snapshot() map[int]map[string]*Entry {
	s.Mu.Lock()
	defer s.Mu.Unlock()
	out := map[int]map[string]*Entry{}
	for n, d := range s.DBs {
		if len(d) == 0 {
			continue
		}
		out[n] = map[string]*Entry{}
		for k, e := range d {
			c := *e
			c.Val = CloneValue(e.Val)
			out[n][k] = &c
		}
	}
	return out
}

func CloneValue(v *rdbgen.Value) *rdbgen.Value {
	c := &rdbgen.Value{Kind: v.Kind, Str: append([]byte{}, v.Str...), Raw: append([]byte{}, v.Raw...)}
	for _, e := range v.List {
		c.List = append(c.List, append([]byte{}, e...))
	}
	for _, p := range v.Hash {
		c.Hash = append(c.Hash, [2][]byte{append([]byte{}, p[0]...), append([]byte{}, p[1]...)})
	}
	for _, z := range v.ZSet {
		c.ZSet = append(c.ZSet, rdbgen.ZEntry{Member: append([]byte{}, z.Member...), Score: z.Score})
	}
	return c
}

// DiffKeyspaces describes the first difference of two snapshots ("" = equal). TTLs are compared only
// when cmpTTL is set.
func DiffKeyspaces(a, b map[int]map[string]*Entry, cmpTTL bool) string {
	dbs := map[int]bool{}
	for n := range a {
		dbs[n] = true
	}
	for n := range b {
		dbs[n] = true
	}
	var ns []int
	for n := range dbs {
		ns = append(ns, n)
	}
	sort.Ints(ns)
	for _, n := range ns {
		keys := map[string]bool{}
		for k := range a[n] {
			keys[k] = true
		}
		for k := range b[n] {
			keys[k] = true
		}
		var ks []string
		for k := range keys {
			ks = append(ks, k)
		}
		sort.Strings(ks)
		for _, k := range ks {
			x, y := a[n][k], b[n][k]
			switch {
			case x == nil:
				return fmt.Sprintf("db%d key %q only in the second", n, k)
			case y == nil:
				return fmt.Sprintf("db%d key %q only in the first", n, k)
			case !refrdb.Equal(x.Val, y.Val):
				return fmt.Sprintf("db%d key %q values differ: %s vs %s", n, k, Describe(x.Val), Describe(y.Val))
			case cmpTTL && x.ExpireAt != y.ExpireAt:
				return fmt.Sprintf("db%d key %q expiry differs: %d vs %d", n, k, x.ExpireAt, y.ExpireAt)
			}
		}
	}
	return ""
}

func Describe(v *rdbgen.Value) string {
	if v == nil {
		return "<nil>"
	}
	switch v.Kind {
	case "string":
		if len(v.Str) > 48 {
			return fmt.Sprintf("string(%d) %q...", len(v.Str), v.Str[:48])
		}
		return fmt.Sprintf("string %q", v.Str)
	case "hash":
		s := fmt.Sprintf("hash(%d)", len(v.Hash))
		for i, p := range v.Hash {
			if i < 3 {
				s += fmt.Sprintf(" %q=%q", cut(p[0]), cut(p[1]))
			}
		}
		return s
	case "zset":
		s := fmt.Sprintf("zset(%d)", len(v.ZSet))
		for i, z := range v.ZSet {
			if i < 3 {
				s += fmt.Sprintf(" %q:%v", cut(z.Member), z.Score)
			}
		}
		return s
	}
	s := fmt.Sprintf("%s(%d)", v.Kind, len(v.List))
	for i, e := range v.List {
		if i < 4 {
			s += fmt.Sprintf(" %q", cut(e))
		}
	}
	return s
}

func cut(b []byte) []byte {
	if len(b) > 16 {
		return b[:16]
	}
	return b
}

var ErrClosed = errors.New("miniredis: connection closed")
