package miniredis

import (
	"bufio"
	"bytes"
	"errors"
	"fmt"
	"io"
	"net"
	"strconv"
	"sync"
	"time"

	redigo "github.com/garyburd/redigo/redis"
)

// ---------- in-process redigo.Conn

type TraceEv struct {
	Kind string // send | flush
	Cmd  string
	N    int // flush: number of commands flushed
}

type Conn struct {
	mu      sync.Mutex
	cond    *sync.Cond
	Sess    *Session
	sendq   [][][]byte
	pending []interface{}
	Trace   []TraceEv
	Flushes [][]string // command names per flush (batch partition evidence)
	closed  bool
	// BlockReceive: Receive waits for replies instead of failing when none is pending
	BlockReceive bool
	// SlowFlush, when set, is called at the start of every Flush with its ordinal; it may sleep (a slow target)
	SlowFlush func(nth int)
	nflush    int
}

func (s *Server) NewConn() *Conn {
	c := &Conn{Sess: s.NewSession()}
	c.cond = sync.NewCond(&c.mu)
	if s.Password != "" {
		c.Sess.authed = true // the dial/AUTH step is not part of the in-process front end
	}
	return c
}

func argBytes(a interface{}) []byte {
	switch x := a.(type) {
	case string:
		return []byte(x)
	case []byte:
		return x
	case int:
		return []byte(strconv.Itoa(x))
	case int64:
		return []byte(strconv.FormatInt(x, 10))
	case float64:
		return []byte(strconv.FormatFloat(x, 'g', -1, 64))
	case bool:
		if x {
			return []byte("1")
		}
		return []byte("0")
	case nil:
		return []byte("")
	}
	var b bytes.Buffer
	fmt.Fprint(&b, a)
	return b.Bytes()
}

func toRedigo(r interface{}) interface{} {
	switch x := r.(type) {
	case Status:
		return string(x)
	case ErrReply:
		return redigo.Error(string(x))
	case []interface{}:
		out := make([]interface{}, len(x))
		for i := range x {
			out[i] = toRedigo(x[i])
		}
		return out
	}
	return r
}

func (c *Conn) Close() error {
	c.mu.Lock()
	c.closed = true
	c.cond.Broadcast()
	c.mu.Unlock()
	c.Sess.Disconnect()
	return nil
}

func (c *Conn) Err() error { return nil }

func (c *Conn) Send(cmd string, args ...interface{}) error {
	c.mu.Lock()
	defer c.mu.Unlock()
	if c.closed {
		return ErrClosed
	}
	argv := [][]byte{[]byte(cmd)}
	for _, a := range args {
		argv = append(argv, append([]byte{}, argBytes(a)...))
	}
	c.sendq = append(c.sendq, argv)
	c.Trace = append(c.Trace, TraceEv{Kind: "send", Cmd: cmd})
	return nil
}

func (c *Conn) Flush() error {
	if c.SlowFlush != nil {
		c.mu.Lock()
		c.nflush++
		n := c.nflush
		c.mu.Unlock()
		c.SlowFlush(n)
	}
	c.mu.Lock()
	defer c.mu.Unlock()
	if c.closed {
		return ErrClosed
	}
	q := c.sendq
	c.sendq = nil
	var names []string
	for _, argv := range q {
		names = append(names, lower(argv[0]))
		c.pending = append(c.pending, toRedigo(c.Sess.Do(argv)))
	}
	c.Trace = append(c.Trace, TraceEv{Kind: "flush", N: len(q)})
	if len(q) > 0 {
		c.Flushes = append(c.Flushes, names)
	}
	c.cond.Broadcast()
	return nil
}

// FlushesSnapshot returns the command names of every flushed batch so far.
func (c *Conn) FlushesSnapshot() [][]string {
	c.mu.Lock()
	defer c.mu.Unlock()
	return append([][]string{}, c.Flushes...)
}

func (c *Conn) Receive() (interface{}, error) {
	c.mu.Lock()
	defer c.mu.Unlock()
	for len(c.pending) == 0 {
		if c.closed {
			return nil, ErrClosed
		}
		if !c.BlockReceive {
			return nil, errors.New("miniredis: Receive with no pending reply (the real connection would block forever)")
		}
		c.cond.Wait()
	}
	r := c.pending[0]
	c.pending = c.pending[1:]
	if e, ok := r.(redigo.Error); ok {
		return nil, e
	}
	return r, nil
}

func (c *Conn) Do(cmd string, args ...interface{}) (interface{}, error) {
	if cmd != "" {
		if err := c.Send(cmd, args...); err != nil {
			return nil, err
		}
	}
	if err := c.Flush(); err != nil {
		return nil, err
	}
	c.mu.Lock()
	defer c.mu.Unlock()
	all := c.pending
	c.pending = nil
	var err error
	for _, r := range all {
		if e, ok := r.(redigo.Error); ok && err == nil {
			err = e
		}
	}
	if cmd == "" {
		return all, err
	}
	if len(all) == 0 {
		return nil, err
	}
	last := all[len(all)-1]
	if e, ok := last.(redigo.Error); ok {
		if err == nil {
			err = e
		}
		return nil, err
	}
	return last, err
}

// ---------- RESP over a byte stream

func readLine(br *bufio.Reader) ([]byte, error) {
	l, err := br.ReadBytes('\n')
	if err != nil {
		return nil, err
	}
	if len(l) < 2 || l[len(l)-2] != '\r' {
		return nil, errors.New("miniredis: protocol error (CRLF)")
	}
	return l[:len(l)-2], nil
}

// ReadCommand reads one client command (array of bulks, or an inline line). consumed counts its bytes.
func ReadCommand(br *bufio.Reader) (argv [][]byte, consumed int, err error) {
	for {
		b, err := br.ReadByte()
		if err != nil {
			return nil, consumed, err
		}
		consumed++
		if b == '\n' || b == '\r' {
			continue
		}
		if b != '*' {
			br.UnreadByte()
			consumed--
			l, err := br.ReadBytes('\n')
			consumed += len(l)
			if err != nil {
				return nil, consumed, err
			}
			for _, f := range bytes.Fields(bytes.TrimRight(l, "\r\n")) {
				argv = append(argv, f)
			}
			return argv, consumed, nil
		}
		break
	}
	l, err := br.ReadBytes('\n')
	consumed += len(l)
	if err != nil {
		return nil, consumed, err
	}
	n, err := strconv.Atoi(string(bytes.TrimRight(l, "\r\n")))
	if err != nil || n < 0 || n > 1<<20 {
		return nil, consumed, errors.New("miniredis: bad multibulk length")
	}
	for i := 0; i < n; i++ {
		l, err := br.ReadBytes('\n')
		consumed += len(l)
		if err != nil {
			return nil, consumed, err
		}
		if len(l) < 4 || l[0] != '$' {
			return nil, consumed, errors.New("miniredis: expected bulk")
		}
		bl, err := strconv.Atoi(string(bytes.TrimRight(l[1:], "\r\n")))
		if err != nil || bl < 0 || bl > 1<<30 {
			return nil, consumed, errors.New("miniredis: bad bulk length")
		}
		buf := make([]byte, bl+2)
		k, err := io.ReadFull(br, buf)
		consumed += k
		if err != nil {
			return nil, consumed, err
		}
		argv = append(argv, buf[:bl])
	}
	return argv, consumed, nil
}

func EncodeReply(w *bytes.Buffer, r interface{}) {
	switch x := r.(type) {
	case Status:
		w.WriteString("+" + string(x) + "\r\n")
	case ErrReply:
		w.WriteString("-" + string(x) + "\r\n")
	case int64:
		w.WriteString(":" + strconv.FormatInt(x, 10) + "\r\n")
	case int:
		w.WriteString(":" + strconv.Itoa(x) + "\r\n")
	case []byte:
		w.WriteString("$" + strconv.Itoa(len(x)) + "\r\n")
		w.Write(x)
		w.WriteString("\r\n")
	case nil:
		w.WriteString("$-1\r\n")
	case []interface{}:
		w.WriteString("*" + strconv.Itoa(len(x)) + "\r\n")
		for _, e := range x {
			EncodeReply(w, e)
		}
	default:
		w.WriteString("-ERR model cannot encode reply\r\n")
	}
}

// ---------- TCP front end

type TCP struct {
	Srv  *Server
	L    net.Listener
	Addr string
	// Gate, when set, is called (outside the server lock) before a command is applied; it may block: that is
	// how a scheduler chooses the interleaving between connections.
	Gate func(connID int, argv [][]byte)
	// OnBytes is called with every chunk of bytes received on a connection (C04 records the target stream)
	OnBytes func(connID int, p []byte)
	// Handler, when set, handles a command instead of the model (return handled=false to fall through)
	Handler func(ss *Session, c net.Conn, argv [][]byte) (reply interface{}, handled bool)
	mu      sync.Mutex
	conns   map[int]net.Conn
	closed  bool
}

func (s *Server) ListenTCP() (*TCP, error) {
	var l net.Listener
	var err error
	for i := 0; i < 100; i++ { // a loopback port may be unavailable for a moment under heavy TIME_WAIT load
		if l, err = net.Listen("tcp", "127.0.0.1:0"); err == nil {
			break
		}
		time.Sleep(100 * time.Millisecond)
	}
	if err != nil {
		return nil, err
	}
	t := &TCP{Srv: s, L: l, Addr: l.Addr().String(), conns: map[int]net.Conn{}}
	go t.accept()
	return t, nil
}

func (t *TCP) accept() {
	for {
		c, err := t.L.Accept()
		if err != nil {
			return
		}
		go t.serve(c)
	}
}

type tapReader struct {
	r  io.Reader
	fn func([]byte)
}

func (tr *tapReader) Read(p []byte) (int, error) {
	n, err := tr.r.Read(p)
	if n > 0 {
		tr.fn(p[:n])
	}
	return n, err
}

// SetServer swaps the model behind the listener (new connections use it); open connections are closed.
func (t *TCP) SetServer(s *Server) {
	t.KillConns()
	t.mu.Lock()
	t.Srv = s
	t.mu.Unlock()
}

func (t *TCP) serve(c net.Conn) {
	t.mu.Lock()
	srv := t.Srv
	t.mu.Unlock()
	ss := srv.NewSession()
	t.mu.Lock()
	t.conns[ss.ID] = c
	t.mu.Unlock()
	defer func() {
		ss.Disconnect()
		c.Close()
		t.mu.Lock()
		delete(t.conns, ss.ID)
		t.mu.Unlock()
	}()
	var rd io.Reader = c
	if t.OnBytes != nil {
		rd = &tapReader{r: c, fn: func(p []byte) { t.OnBytes(ss.ID, p) }}
	}
	br := bufio.NewReaderSize(rd, 1<<16)
	var out bytes.Buffer
	for {
		argv, _, err := ReadCommand(br)
		if err != nil {
			return
		}
		if len(argv) == 0 {
			continue
		}
		if t.Gate != nil {
			t.Gate(ss.ID, argv)
		}
		var reply interface{}
		handled := false
		if t.Handler != nil {
			reply, handled = t.Handler(ss, c, argv)
		}
		if !handled {
			reply = ss.Do(argv)
		}
		if reply == NoReply {
			continue
		}
		if reply == DropConn {
			return
		}
		out.Reset()
		EncodeReply(&out, reply)
		if _, err := c.Write(out.Bytes()); err != nil {
			return
		}
	}
}

type noReply struct{}

// NoReply: returned by a Handler that wrote to the connection itself.
var NoReply = noReply{}

// KillConns closes every open client connection (the listener stays).
func (t *TCP) KillConns() {
	t.mu.Lock()
	for id, c := range t.conns {
		if tc, ok := c.(*net.TCPConn); ok {
			tc.SetLinger(0) // reset instead of FIN: no TIME_WAIT entries pile up over tens of thousands of cases
		}
		c.Close()
		delete(t.conns, id)
	}
	t.mu.Unlock()
}

func (t *TCP) Close() {
	t.L.Close()
	t.KillConns()
}

// ---------- replay of a recorded byte prefix

// Replay applies the complete commands contained in stream to a fresh session of s and then
// disconnects (an unfinished MULTI is discarded, exactly as Redis does).
func (s *Server) Replay(stream []byte) (commands int) {
	ss := s.NewSession()
	ss.authed = true
	br := bufio.NewReader(bytes.NewReader(stream))
	for {
		argv, _, err := ReadCommand(br)
		if err != nil {
			break
		}
		if len(argv) == 0 {
			continue
		}
		ss.Do(argv)
		commands++
	}
	ss.Disconnect()
	return
}

// WaitFor polls cond (a state predicate, not a verdict) until it holds or the watchdog expires.
func WaitFor(watchdog time.Duration, cond func() bool) bool {
	deadline := time.Now().Add(watchdog)
	for !cond() {
		if time.Now().After(deadline) {
			return false
		}
		time.Sleep(2 * time.Millisecond)
	}
	return true
}
