// Package refcrc holds bitwise, table-free reference CRCs: CRC-64/Jones as used by Redis
// (poly 0xad93d23594c935a9, reflected in/out, init 0, xorout 0) and CRC16/XMODEM (poly 0x1021, init 0).
package refcrc

// reflected form of 0xad93d23594c935a9
const jonesRev = 0x95ac9329ac4bc9b5

func CRC64(crc uint64, p []byte) uint64 {
	for _, b := range p {
		crc ^= uint64(b)
		for i := 0; i < 8; i++ {
			if crc&1 == 1 {
				crc = (crc >> 1) ^ jonesRev
			} else {
				crc >>= 1
			}
		}
	}
	return crc
}

func CRC16(p []byte) uint16 {
	var crc uint16
	for _, b := range p {
		crc ^= uint16(b) << 8
		for i := 0; i < 8; i++ {
			if crc&0x8000 != 0 {
				crc = (crc << 1) ^ 0x1021
			} else {
				crc <<= 1
			}
		}
	}
	return crc
}

// Slot is the Redis Cluster key->slot function, written from the specification.
func Slot(key []byte) int {
	s := -1
	for i, c := range key {
		if c == '{' {
			s = i
			break
		}
	}
	if s >= 0 {
		for e := s + 1; e < len(key); e++ {
			if key[e] == '}' {
				if e > s+1 {
					return int(CRC16(key[s+1:e])) & 16383
				}
				break
			}
		}
	}
	return int(CRC16(key)) & 16383
}

// SelfTest checks the published check values.
func SelfTest() string {
	if CRC64(0, []byte("123456789")) != 0xe9c6d914c4b8d9ca {
		return "refcrc.CRC64 check value mismatch"
	}
	if CRC16([]byte("123456789")) != 0x31C3 {
		return "refcrc.CRC16 check value mismatch"
	}
	if Slot([]byte("foo{}{bar}")) != int(CRC16([]byte("foo{}{bar}")))&16383 {
		return "refcrc.Slot {} rule"
	}
	if Slot([]byte("foo{{bar}}zap")) != int(CRC16([]byte("{bar")))&16383 {
		return "refcrc.Slot {{bar}} rule"
	}
	if Slot([]byte("foo{bar}{zap}")) != int(CRC16([]byte("bar")))&16383 {
		return "refcrc.Slot first tag rule"
	}
	return ""
}
