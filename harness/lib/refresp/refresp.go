// Package refresp is an independent strict RESP codec used as the reference for pkg/redis.
// It mirrors exactly two documented leniencies of the tool's decoder at top level: LF bytes before a
// type byte are skipped, and an unknown type byte starts an inline (space separated) command.
package refresp

import (
	"bytes"
	"strconv"
)

type Kind byte

const (
	Str  Kind = '+'
	Err  Kind = '-'
	Int  Kind = ':'
	Bulk Kind = '$'
	Arr  Kind = '*'
)

type V struct {
	K      Kind
	S      []byte // Str, Err, Bulk
	N      int64
	A      []V
	Nil    bool // nil bulk / nil array
	Inline bool
}

func Encode(v V) []byte {
	var b bytes.Buffer
	enc(&b, v)
	return b.Bytes()
}

func enc(b *bytes.Buffer, v V) {
	b.WriteByte(byte(v.K))
	switch v.K {
	case Str, Err:
		b.Write(v.S)
		b.WriteString("\r\n")
	case Int:
		b.WriteString(strconv.FormatInt(v.N, 10))
		b.WriteString("\r\n")
	case Bulk:
		if v.Nil {
			b.WriteString("-1\r\n")
			return
		}
		b.WriteString(strconv.Itoa(len(v.S)))
		b.WriteString("\r\n")
		b.Write(v.S)
		b.WriteString("\r\n")
	case Arr:
		if v.Nil {
			b.WriteString("-1\r\n")
			return
		}
		b.WriteString(strconv.Itoa(len(v.A)))
		b.WriteString("\r\n")
		for _, e := range v.A {
			enc(b, e)
		}
	}
}

// Class of a decode attempt.
type Class int

const (
	Valid        Class = iota // strictly valid: Value and Consumed are meaningful
	MustError                 // one of the malformation classes of the property: must not yield a value
	Unclassified              // lenient forms the property does not speak about
)

type Result struct {
	Class    Class
	Why      string
	Value    V
	Consumed int // bytes consumed from the input, leading LFs included
}

type dec struct {
	p   []byte
	pos int
}

type fail struct {
	class Class
	why   string
}

// Decode decodes one top-level value from p.
func Decode(p []byte) (res Result) {
	d := &dec{p: p}
	defer func() {
		if x := recover(); x != nil {
			f := x.(fail)
			res = Result{Class: f.class, Why: f.why}
		}
	}()
	v := d.value(0)
	return Result{Class: Valid, Value: v, Consumed: d.pos}
}

func (d *dec) must(why string)    { panic(fail{MustError, why}) }
func (d *dec) unclass(why string) { panic(fail{Unclassified, why}) }

func (d *dec) line() []byte {
	i := bytes.IndexByte(d.p[d.pos:], '\n')
	if i < 0 {
		d.must("truncation")
	}
	l := d.p[d.pos : d.pos+i+1]
	d.pos += i + 1
	if len(l) < 2 || l[len(l)-2] != '\r' {
		d.must("missing-crlf")
	}
	return l[:len(l)-2]
}

func strictInt(b []byte) (int64, string) {
	// lenient grammar: optional sign, digits
	if len(b) == 0 {
		return 0, "non-numeric"
	}
	i := 0
	if b[0] == '+' || b[0] == '-' {
		i = 1
	}
	if i == len(b) {
		return 0, "non-numeric"
	}
	for _, c := range b[i:] {
		if c < '0' || c > '9' {
			return 0, "non-numeric"
		}
	}
	// strict: no '+', no leading zeros, no "-0"
	if b[0] == '+' || (b[i] == '0' && len(b) > i+1) || (b[0] == '-' && b[i] == '0') {
		return 0, "lenient-numeric"
	}
	n, err := strconv.ParseInt(string(b), 10, 64)
	if err != nil {
		return 0, "lenient-numeric" // overflow
	}
	return n, ""
}

func (d *dec) integer(what string) int64 {
	n, why := strictInt(d.line())
	switch why {
	case "non-numeric":
		d.must("non-numeric-" + what)
	case "lenient-numeric":
		d.unclass("lenient numeric form")
	}
	return n
}

func (d *dec) value(depth int) V {
	if d.pos >= len(d.p) {
		d.must("truncation")
	}
	t := d.p[d.pos]
	for t == '\n' {
		if depth != 0 {
			d.unclass("LF before a nested type byte")
		}
		d.pos++
		if d.pos >= len(d.p) {
			d.must("truncation")
		}
		t = d.p[d.pos]
	}
	switch Kind(t) {
	case Str, Err:
		d.pos++
		return V{K: Kind(t), S: d.line()}
	case Int:
		d.pos++
		return V{K: Int, N: d.integer("int")}
	case Bulk:
		d.pos++
		n := d.integer("length")
		if n < -1 {
			d.must("length-below-minus-one")
		}
		if n == -1 {
			return V{K: Bulk, Nil: true}
		}
		if n > 1<<26 {
			d.unclass("huge bulk length (allocation of that size is fatal in-process; not driven)")
		}
		if int64(len(d.p)-d.pos) < n+2 {
			d.must("truncation")
		}
		s := d.p[d.pos : d.pos+int(n)]
		if d.p[d.pos+int(n)] != '\r' || d.p[d.pos+int(n)+1] != '\n' {
			d.must("missing-crlf")
		}
		d.pos += int(n) + 2
		return V{K: Bulk, S: s}
	case Arr:
		d.pos++
		n := d.integer("length")
		if n < -1 {
			d.must("length-below-minus-one")
		}
		if n == -1 {
			return V{K: Arr, Nil: true}
		}
		if n > 1<<22 {
			d.unclass("huge array length (not driven in-process)")
		}
		if n > int64(len(d.p)) {
			d.must("truncation")
		}
		a := make([]V, 0, n)
		for i := int64(0); i < n; i++ {
			a = append(a, d.value(depth+1))
		}
		return V{K: Arr, A: a}
	}
	if depth != 0 {
		d.must("unknown-type-in-array")
	}
	// inline command
	l := d.line()
	v := V{K: Arr, Inline: true, A: []V{}}
	for _, tok := range bytes.Split(l, []byte(" ")) {
		if len(tok) > 0 {
			v.A = append(v.A, V{K: Bulk, S: tok})
		}
	}
	if len(v.A) == 0 {
		d.unclass("empty inline line")
	}
	return v
}

// Equal compares two values (nil vs empty kept apart).
func Equal(a, b V) bool {
	if a.K != b.K || a.Nil != b.Nil {
		return false
	}
	switch a.K {
	case Str, Err, Bulk:
		return bytes.Equal(a.S, b.S)
	case Int:
		return a.N == b.N
	case Arr:
		if len(a.A) != len(b.A) {
			return false
		}
		for i := range a.A {
			if !Equal(a.A[i], b.A[i]) {
				return false
			}
		}
	}
	return true
}
