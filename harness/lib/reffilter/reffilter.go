// Package reffilter is the reference for the tool's filters: prefix black/white lists, exact db
// lists, slot list, lua flag, checkpoint-key rule, and the Redis key-spec table (first,last,step in
// Redis' own argv convention, command name at position 0, negative = counted from the end),
// transcribed from the Redis command table — never read from the tool.
package reffilter

import (
	"bytes"
	"strconv"
	"strings"

	"verif/harness/lib/refcrc"
)

type KeySpec struct{ First, Last, Step int }

var one = KeySpec{1, 1, 1}

// KeySpecs: every command of the tool's write-command table.
var KeySpecs = map[string]KeySpec{
	"del": {1, -1, 1}, "unlink": {1, -1, 1},
	"mset": {1, -1, 2}, "msetnx": {1, -1, 2},
	"brpop": {1, -2, 1}, "blpop": {1, -2, 1},
	"sinterstore": {1, -1, 1}, "sunionstore": {1, -1, 1}, "sdiffstore": {1, -1, 1}, "pfmerge": {1, -1, 1},
	"bitop":  {2, -1, 1},
	"rename": {1, 2, 1}, "renamenx": {1, 2, 1}, "smove": {1, 2, 1}, "rpoplpush": {1, 2, 1}, "brpoplpush": {1, 2, 1},
}

func init() {
	for _, c := range strings.Fields(`set setnx setex psetex append setbit bitfield setrange incr decr rpush lpush rpushx lpushx
		linsert rpop lpop lset ltrim lrem sadd srem spop zadd zincrby zrem zremrangebyscore zremrangebyrank zremrangebylex
		hset hsetnx hmset hincrby hincrbyfloat hdel incrby decrby incrbyfloat getset move expire expireat pexpire pexpireat
		persist restore restore-asking geoadd pfadd`) {
		KeySpecs[c] = one
	}
}

// KeyPositions returns the indexes (into args, i.e. without the command name) of the key arguments.
func KeyPositions(cmd string, nargs int) (pos []int, step int, ok bool) {
	ks, ok := KeySpecs[strings.ToLower(cmd)]
	if !ok {
		return nil, 0, false
	}
	argc := nargs + 1
	last := ks.Last
	if last < 0 {
		last = argc + last
	}
	for j := ks.First; j <= last && j < argc; j += ks.Step {
		pos = append(pos, j-1)
	}
	return pos, ks.Step, true
}

type Config struct {
	KeyBlack, KeyWhite []string
	DBBlack, DBWhite   []string
	Slots              []string
	Lua                bool
}

const CheckpointKey = "redis-shake-checkpoint"

// KeyExcluded: true = the key must not reach the target.
func (c *Config) KeyExcluded(key []byte) bool {
	if bytes.HasPrefix(key, []byte(CheckpointKey)) {
		return true
	}
	if len(c.KeyBlack) != 0 {
		for _, p := range c.KeyBlack {
			if bytes.HasPrefix(key, []byte(p)) {
				return true
			}
		}
		return false
	}
	if len(c.KeyWhite) != 0 {
		for _, p := range c.KeyWhite {
			if bytes.HasPrefix(key, []byte(p)) {
				return false
			}
		}
		return true
	}
	return false
}

func (c *Config) HasKeyFilter() bool { return len(c.KeyBlack) != 0 || len(c.KeyWhite) != 0 }

func (c *Config) DBExcluded(db int) bool {
	s := strconv.Itoa(db)
	if len(c.DBBlack) != 0 {
		for _, e := range c.DBBlack {
			if e == s {
				return true
			}
		}
		return false
	}
	if len(c.DBWhite) != 0 {
		for _, e := range c.DBWhite {
			if e == s {
				return false
			}
		}
		return true
	}
	return false
}

func (c *Config) SlotExcluded(key []byte) bool {
	if len(c.Slots) == 0 {
		return false
	}
	s := strconv.Itoa(refcrc.Slot(key))
	for _, e := range c.Slots {
		if e == s {
			return false
		}
	}
	return true
}

// CommandExcluded covers script commands under filter.lua and the tool's internal bookkeeping command.
func (c *Config) CommandExcluded(cmd string) bool {
	l := strings.ToLower(cmd)
	if l == "opinfo" {
		return true
	}
	if c.Lua && (l == "eval" || l == "evalsha" || l == "script") {
		return true
	}
	return false
}

// Rewrite is the literal statement of C13: returns the expected argv (without command name) and
// whether the command is dropped.
func (c *Config) Rewrite(cmd string, args [][]byte) (out [][]byte, dropped bool) {
	if !c.HasKeyFilter() || len(args) == 0 {
		return args, false
	}
	pos, step, ok := KeyPositions(cmd, len(args))
	if !ok || len(pos) == 0 {
		return args, false
	}
	out = append(out, args[:pos[0]]...)
	n := 0
	end := pos[0]
	for _, p := range pos {
		end = p + step
		if end > len(args) {
			end = len(args)
		}
		if !c.KeyExcluded(args[p]) {
			out = append(out, args[p:end]...)
			n++
		}
	}
	out = append(out, args[end:]...)
	return out, n == 0
}
