package rdbgen

import (
	"errors"
	"sync/atomic"

	"verif/harness/lib/prng"
)

// LZFDecompress is the reference decompressor (format of liblzf as used by Redis).
func LZFDecompress(in []byte, outlen int) ([]byte, error) {
	out := make([]byte, 0, outlen)
	i := 0
	for i < len(in) {
		ctrl := int(in[i])
		i++
		if ctrl < 32 {
			n := ctrl + 1
			if i+n > len(in) {
				return nil, errors.New("lzf: literal run past end")
			}
			out = append(out, in[i:i+n]...)
			i += n
			continue
		}
		l := ctrl >> 5
		if l == 7 {
			if i >= len(in) {
				return nil, errors.New("lzf: truncated length")
			}
			l += int(in[i])
			i++
		}
		if i >= len(in) {
			return nil, errors.New("lzf: truncated offset")
		}
		ref := len(out) - ((ctrl&0x1f)<<8 | int(in[i])) - 1
		i++
		if ref < 0 {
			return nil, errors.New("lzf: reference before start")
		}
		for k := 0; k < l+2; k++ {
			out = append(out, out[ref+k])
		}
	}
	if len(out) != outlen {
		return nil, errors.New("lzf: length mismatch")
	}
	return out, nil
}

// LZFCompress produces a valid LZF stream for plain with a randomised shape: literal runs of random
// length, back-references picked among several candidates (near ones give overlapping copies), match
// lengths randomly shortened, lengths >= 9 use the extended (7+ext) form.
// FarRefs counts emitted back-references whose distance needs the high offset bits (evidence only).
var FarRefs int64

// VeryFarRefs counts back-references beyond 4096 bytes (the offset's top bit).
var VeryFarRefs int64

func LZFCompress(rng *prng.R, plain []byte) []byte {
	var out []byte
	var lit []byte
	flush := func() {
		for len(lit) > 0 {
			n := len(lit)
			if n > 32 {
				n = 32
			}
			if n > 1 && rng.Chance(1, 4) {
				n = rng.Range(1, n)
			}
			out = append(out, byte(n-1))
			out = append(out, lit[:n]...)
			lit = lit[n:]
		}
	}
	// positions of every 3-byte sequence seen so far: far matches (distance > 256 needs the offset's high
	// bits) are found deliberately, not by luck
	tri := map[[3]byte][]int{}
	indexed := 0
	i := 0
	for i < len(plain) {
		for ; indexed < i && indexed+3 <= len(plain); indexed++ {
			k := [3]byte{plain[indexed], plain[indexed+1], plain[indexed+2]}
			if len(tri[k]) < 64 {
				tri[k] = append(tri[k], indexed)
			}
		}
		bestLen, bestDist := 0, 0
		if i >= 1 && i+3 <= len(plain) && !rng.Chance(1, 6) {
			// candidate distances: a window of near ones plus a few far ones
			try := func(d int) {
				if d < 1 || d > i || d > 8192 {
					return
				}
				l := 0
				for i+l < len(plain) && l < 264 && plain[i+l] == plain[i-d+l] {
					l++
				}
				if l >= 3 && (l > bestLen || (l == bestLen && rng.Bool())) {
					bestLen, bestDist = l, d
				}
			}
			for d := 1; d <= 40; d++ {
				try(d)
			}
			for k := 0; k < 12; k++ {
				try(rng.Range(41, 8192))
			}
			if i > 300 {
				try(i)
				try(i - 1)
			}
			if cand := tri[[3]byte{plain[i], plain[i+1], plain[i+2]}]; len(cand) > 0 {
				far := rng.Chance(1, 2) // prefer the farthest occurrence half of the time
				for k := 0; k < 6 && k < len(cand); k++ {
					q := cand[rng.Intn(len(cand))]
					if far {
						q = cand[k]
					}
					if far && bestLen >= 3 && i-q < bestDist {
						continue
					}
					try(i - q)
					if far && bestLen >= 3 && bestDist == i-q {
						break
					}
				}
			}
		}
		if bestLen >= 3 {
			l := bestLen
			if l > 3 && rng.Chance(1, 3) {
				l = rng.Range(3, l)
			}
			flush()
			d := bestDist - 1
			if d >= 256 {
				atomic.AddInt64(&FarRefs, 1)
			}
			if d >= 4096 {
				atomic.AddInt64(&VeryFarRefs, 1)
			}
			if l-2 < 7 {
				out = append(out, byte((l-2)<<5|d>>8), byte(d))
			} else {
				out = append(out, byte(7<<5|d>>8), byte(l-2-7), byte(d))
			}
			i += l
			continue
		}
		lit = append(lit, plain[i])
		i++
	}
	flush()
	return out
}

// Repetitive returns n bytes that compress well and contain runs and short periods.
func Repetitive(rng *prng.R, n int) []byte {
	out := make([]byte, 0, n)
	for len(out) < n {
		switch rng.Intn(5) {
		case 0: // run of one byte
			c := byte(rng.Intn(256))
			for k := rng.Range(3, 40); k > 0; k-- {
				out = append(out, c)
			}
		case 1: // short period repeated (period p, total > p => overlapping copy incl. length == distance+1)
			p := rng.Range(1, 9)
			frag := rng.Bytes(p)
			tot := p + rng.Pick(1, 1, 2, p, p+1, 3*p, 20)
			for k := 0; k < tot; k++ {
				out = append(out, frag[k%p])
			}
		case 2: // copy of something earlier
			if len(out) > 8 {
				s := rng.Intn(len(out) - 4)
				l := rng.Range(3, 30)
				if s+l > len(out) {
					l = len(out) - s
				}
				out = append(out, out[s:s+l]...)
				break
			}
			fallthrough
		default:
			out = append(out, rng.Bytes(rng.Range(1, 12))...)
		}
	}
	return out[:n]
}
