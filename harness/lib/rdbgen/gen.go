package rdbgen

import (
	"fmt"
	"math"
	"strconv"

	"verif/harness/lib/prng"
)

var intEdges = []int64{0, 1, -1, 12, 13, 127, 128, -128, -129, 32767, 32768, -32768, -32769, 8388607, 8388608, -8388608, -8388609,
	2147483647, 2147483648, -2147483648, -2147483649, 9223372036854775807, -9223372036854775808, 100000, -100000}

// RandElem returns an element string of a random style.
func RandElem(rng *prng.R) []byte {
	switch rng.Intn(12) {
	case 0:
		return []byte(strconv.FormatInt(intEdges[rng.Intn(len(intEdges))], 10))
	case 1:
		return []byte(strconv.FormatInt(int64(rng.U64()), 10))
	case 2:
		return []byte(strconv.Itoa(rng.Range(-20, 20)))
	case 3:
		return []byte(rng.PickS("007", "-0", "+1", " 1", "1 ", "0x10", "1e3", "12345678901234567890", "-", ""))
	case 4:
		return rng.Bytes(rng.Pick(0, 1, 2, 5, 31, 63, 64, 65))
	case 5:
		return Repetitive(rng, rng.Range(20, 200))
	case 6:
		return rng.Alpha(rng.Range(1, 20), "abcdefghijklmnopqrstuvwxyz:_-{}")
	case 7:
		return []byte("\xff\xfe\x00binary\r\n\x80")
	}
	return rng.Bytes(rng.Range(1, 24))
}

// uniq makes element i unique by prefixing (sets/hashes/zsets need distinct members).
func uniq(rng *prng.R, i int, intOnly bool) []byte {
	if intOnly {
		return []byte(strconv.FormatInt(int64(i)*7-int64(rng.Pick(0, 3, 100000, 40000, 3000000000)), 10))
	}
	e := RandElem(rng)
	return append([]byte(fmt.Sprintf("%d:", i)), e...)
}

var specialScores = []float64{0, math.Copysign(0, -1), 1, -1, 0.5, 1.5, 3.0000000000000004, math.Inf(1), math.Inf(-1),
	math.MaxFloat64, -math.MaxFloat64, math.SmallestNonzeroFloat64, 4.9406564584124654e-324, 1e20, -1e20, 123456789012345678, 1 << 53, 0.1, 2.2250738585072014e-308}

func RandScore(rng *prng.R, allowNaN bool) float64 {
	switch rng.Intn(5) {
	case 0:
		return specialScores[rng.Intn(len(specialScores))]
	case 1:
		f := math.Float64frombits(rng.U64())
		if math.IsNaN(f) && !allowNaN {
			return 42
		}
		return f
	case 2:
		return float64(rng.Range(-1000, 1000))
	}
	return float64(rng.Range(-100000, 100000)) / 64
}

// RandValue builds a logical value of the given kind with n elements.
func RandValue(rng *prng.R, kind string, n int) *Value {
	v := &Value{Kind: kind}
	switch kind {
	case "string":
		switch rng.Intn(6) {
		case 0:
			v.Str = []byte(strconv.FormatInt(intEdges[rng.Intn(len(intEdges))], 10))
		case 1:
			v.Str = Repetitive(rng, rng.Pick(4, 21, 63, 64, 300, 16383, 16384, 20000))
		case 2:
			v.Str = rng.Bytes(rng.Pick(0, 1, 63, 64, 16383, 16384, 70000))
		default:
			v.Str = RandElem(rng)
		}
	case "list":
		for i := 0; i < n; i++ {
			v.List = append(v.List, RandElem(rng))
		}
	case "set":
		for i := 0; i < n; i++ {
			v.List = append(v.List, uniq(rng, i, false))
		}
	case "intset":
		v.Kind = "set"
		wide := rng.Intn(3)
		for i := 0; i < n; i++ {
			x := int64(i)*11 - 40
			switch wide {
			case 1:
				x = int64(i)*100003 - 2000000000
			case 2:
				x = int64(i)*1000000007 - 4000000000000
			}
			if i == 0 && wide == 0 {
				x = -32768
			}
			v.List = append(v.List, []byte(strconv.FormatInt(x, 10)))
		}
	case "zset":
		for i := 0; i < n; i++ {
			v.ZSet = append(v.ZSet, ZEntry{Member: uniq(rng, i, false), Score: RandScore(rng, false)})
		}
	case "hash":
		for i := 0; i < n; i++ {
			v.Hash = append(v.Hash, [2][]byte{uniq(rng, i, false), RandElem(rng)})
		}
	case "stream":
		v.Raw = StreamRaw(rng)
	}
	return v
}

// EncodingsFor lists the physical encodings valid for v.
func EncodingsFor(v *Value) []string {
	switch v.Kind {
	case "string":
		e := []string{"raw"}
		if _, ok := IsIntString(v.Str); ok {
			e = append(e, "int")
		}
		if len(v.Str) >= 4 && len(v.Str) <= 1<<16 {
			e = append(e, "lzf")
		}
		return e
	case "list":
		if len(v.List) == 0 {
			return []string{"linked"}
		}
		return []string{"linked", "ziplist", "quicklist"}
	case "set":
		all := len(v.List) > 0
		for _, m := range v.List {
			n, err := strconv.ParseInt(string(m), 10, 64)
			if err != nil || strconv.FormatInt(n, 10) != string(m) {
				all = false
			}
		}
		if all {
			return []string{"table", "intset"}
		}
		return []string{"table"}
	case "zset":
		nan := false
		for _, z := range v.ZSet {
			if math.IsNaN(z.Score) {
				nan = true
			}
		}
		if nan || len(v.ZSet) == 0 {
			return []string{"zset1", "zset2"}
		}
		return []string{"zset1", "zset2", "ziplist"}
	case "hash":
		if len(v.Hash) == 0 {
			return []string{"table"}
		}
		ok := len(v.Hash) < 250
		for _, p := range v.Hash {
			if len(p[0]) >= 253 || len(p[1]) >= 253 {
				ok = false
			}
		}
		if ok {
			return []string{"table", "ziplist", "zipmap"}
		}
		return []string{"table", "ziplist"}
	}
	return []string{""}
}

var Kinds = []string{"string", "list", "set", "intset", "zset", "hash", "stream"}

type FileOpts struct {
	MaxKeys     int
	MaxElems    int
	Streams     bool
	Metadata    bool // aux / resize / module-aux / lua items between keys
	WideLens    int
	MultiDB     bool
	Expiry      bool
	ClassicOnly bool // only types decode mode / DecodeDump understand (no stream)
}

func RandKey(rng *prng.R) []byte {
	if rng.Chance(1, 120) {
		// very long key: material repeated from 4-8 KiB back (the top bits of the 13-bit LZF offset)
		head := Repetitive(rng, rng.Range(4200, 8100))
		k := append([]byte{}, head...)
		k = append(k, head[:rng.Range(20, 60)]...) // distance = len(head) <= 8191
		s := rng.Intn(200)
		k = append(k, head[s:s+rng.Range(8, 40)]...)
		return k
	}
	if rng.Chance(1, 25) {
		// long key with material repeated from far back (LZF offsets above 256 when compressed)
		head := Repetitive(rng, rng.Range(270, 900))
		k := append([]byte{}, head...)
		k = append(k, rng.Bytes(rng.Range(0, 40))...)
		s := rng.Intn(len(head) - 40)
		k = append(k, head[s:s+rng.Range(8, 40)]...)
		return k
	}
	switch rng.Intn(8) {
	case 0:
		return []byte(strconv.Itoa(rng.Range(-300, 70000))) // int-encodable key
	case 1:
		return Repetitive(rng, rng.Range(20, 60))
	case 2:
		return rng.Bytes(rng.Range(1, 20))
	case 3:
		return []byte("")
	}
	return rng.Alpha(rng.Range(1, 16), "abcdefghijklmnopqrstuvwxyz:{}_0123456789")
}

func RandModAux(rng *prng.R) *Meta {
	m := &Meta{Kind: "modaux", N: rng.U64() | 1<<40}
	m.Mod = append(m.Mod, ModItem{Op: 2, U: uint64(rng.Intn(2))}) // "when"
	for k := rng.Intn(5); k > 0; k-- {
		switch op := rng.Range(1, 5); op {
		case 1:
			m.Mod = append(m.Mod, ModItem{Op: 1, U: uint64(int64(rng.Range(-5, 100000)))})
		case 2:
			m.Mod = append(m.Mod, ModItem{Op: 2, U: rng.U64() >> uint(rng.Pick(0, 30, 50, 60))})
		case 3:
			m.Mod = append(m.Mod, ModItem{Op: 3, F32: float32(rng.Range(-1000, 1000)) / 8})
		case 4:
			m.Mod = append(m.Mod, ModItem{Op: 4, F64: RandScore(rng, true)})
		case 5:
			m.Mod = append(m.Mod, ModItem{Op: 5, S: RandElem(rng)})
		}
	}
	return m
}

func RandMeta(rng *prng.R) *Meta {
	switch rng.Intn(5) {
	case 0:
		return &Meta{Kind: "aux", A: []byte(rng.PickS("redis-ver", "redis-bits", "ctime", "used-mem", "repl-id", "aof-preamble", "luax")), B: []byte(rng.PickS("5.0.7", "64", "1586000000", "1234567", "0", "-3"))}
	case 1:
		return &Meta{Kind: "resize", N: uint64(rng.Intn(100000)), M: uint64(rng.Intn(70))}
	case 2:
		return RandModAux(rng)
	case 3:
		sc := fmt.Sprintf("return redis.call('incr', KEYS[1]) -- %d %s", rng.Intn(1000), RandElem(rng))
		if rng.Chance(1, 12) { // very long script: a line repeated 4-8 KiB later
			line := fmt.Sprintf("local w%d = redis.call('hget', KEYS[%d], ARGV[1]) -- far away\n", rng.Intn(100), rng.Range(1, 9))
			sc = line + string(Repetitive(rng, rng.Range(4200, 8000))) + "\n" + line + sc
		} else if rng.Chance(1, 3) { // long script repeating a far-away line
			line := fmt.Sprintf("local v%d = redis.call('get', KEYS[%d])\n", rng.Intn(100), rng.Range(1, 9))
			sc = line + string(Repetitive(rng, rng.Range(260, 700))) + "\n" + line + sc
		}
		return &Meta{Kind: "lua", B: []byte(sc)}
	}
	return &Meta{Kind: "aux", A: RandElem(rng), B: RandElem(rng)}
}

// RandFile builds a random well-formed file description.
func RandFile(rng *prng.R, o FileOpts) *File {
	f := &File{Version: rng.Range(1, 9)}
	nk := rng.Range(0, o.MaxKeys)
	if rng.Chance(9, 10) && nk == 0 {
		nk = 1
	}
	db := uint32(0)
	if o.Metadata && rng.Bool() {
		f.Items = append(f.Items, Item{Meta: &Meta{Kind: "aux", A: []byte("redis-ver"), B: []byte("5.0.7")}})
	}
	explicitSel := rng.Bool()
	if explicitSel {
		f.Items = append(f.Items, Item{Meta: &Meta{Kind: "selectdb", N: 0}})
	}
	seen := map[string]bool{}
	for i := 0; i < nk; i++ {
		if o.MultiDB && rng.Chance(1, 3) {
			db = uint32(rng.Pick(0, 1, 2, 5, 15))
			if rng.Chance(1, 10) {
				db = uint32(rng.Pick(63, 64, 300)) // length-encoding boundaries of SELECTDB
			}
		}
		if o.Metadata {
			for k := rng.Pick(0, 0, 1, 2); k > 0; k-- {
				f.Items = append(f.Items, Item{Meta: RandMeta(rng)})
			}
		}
		kind := Kinds[rng.Intn(len(Kinds))]
		if kind == "stream" && (!o.Streams || o.ClassicOnly) {
			kind = "hash"
		}
		n := rng.Pick(0, 1, 2, 3, 5, 17, o.MaxElems)
		if n > o.MaxElems {
			n = o.MaxElems
		}
		if (kind == "intset") && n == 0 {
			n = 1
		}
		v := RandValue(rng, kind, n)
		encs := EncodingsFor(v)
		ks := &KeySpec{DB: db, Val: v, Enc: encs[rng.Intn(len(encs))]}
		for tries := 0; ; tries++ {
			ks.Key = RandKey(rng)
			id := fmt.Sprintf("%d/%s", db, ks.Key)
			if !seen[id] {
				seen[id] = true
				break
			}
		}
		if o.Expiry && rng.Chance(1, 3) {
			ks.ExpireMs = uint64(1500000000000 + rng.Intn(1000000000)*1000)
			if rng.Bool() {
				ks.ExpireS = true
			} else {
				ks.ExpireMs += uint64(rng.Intn(1000))
			}
			if rng.Chance(1, 8) {
				ks.ExpireMs = uint64(rng.Pick(1, 1000, 999)) // long expired
			}
		}
		if f.Version >= 9 || rng.Chance(1, 4) {
			if rng.Chance(1, 4) {
				ks.HasIdle, ks.Idle = true, uint32(rng.Pick(0, 1, 63, 64, 16383, 16384, 1000000))
			} else if rng.Chance(1, 4) {
				ks.HasFreq, ks.Freq = true, uint8(rng.Intn(256))
			}
		}
		f.Items = append(f.Items, Item{Key: ks})
	}
	if o.Metadata && rng.Bool() {
		f.Items = append(f.Items, Item{Meta: RandMeta(rng)})
	}
	return f
}
