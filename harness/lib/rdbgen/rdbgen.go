// Package rdbgen builds RDB files and DUMP payloads *by construction*: the same walk emits the bytes,
// the list of records a parser must deliver, and the logical value. No decoder is needed to know what a
// generated file contains. Written from the RDB format as implemented by Redis 2.x-5.x.
package rdbgen

import (
	"bytes"
	"encoding/binary"
	"fmt"
	"math"
	"strconv"

	"verif/harness/lib/prng"
	"verif/harness/lib/refcrc"
)

// ---- logical values

type ZEntry struct {
	Member []byte
	Score  float64
}

type Value struct {
	Kind string // string list set zset hash stream
	Str  []byte
	List [][]byte    // list elements / set members in file order
	Hash [][2][]byte // field, value in file order
	ZSet []ZEntry
	Raw  []byte // stream: opaque serialized bytes
}

// Elements is the number of logical elements.
func (v *Value) Elements() int {
	switch v.Kind {
	case "list", "set":
		return len(v.List)
	case "hash":
		return len(v.Hash)
	case "zset":
		return len(v.ZSet)
	}
	return 1
}

const (
	TString    = 0
	TList      = 1
	TSet       = 2
	TZSet      = 3
	THash      = 4
	TZSet2     = 5
	TZipmap    = 9
	TListZip   = 10
	TIntset    = 11
	TZSetZip   = 12
	THashZip   = 13
	TQuicklist = 14
	TStream    = 15
)

// Record is what a parser must deliver for one key (or one lua script).
type Record struct {
	DB         uint32
	Key        []byte
	Type       byte
	ExpireAt   uint64 // absolute ms, 0 = none
	Idle       uint32
	Freq       uint8
	ValueBytes []byte // the serialized value exactly as in the file (without the type byte)
	IsScript   bool
	Script     []byte
	Logical    *Value
	Encoding   string // human readable encoding label
}

// ---- byte writer with every length / string form

type W struct {
	B   bytes.Buffer
	Rng *prng.R
	// WideLens: probability (x/16) of using a wider-than-necessary length form
	WideLens int
}

func (w *W) Byte(b byte)   { w.B.WriteByte(b) }
func (w *W) Raw(p []byte)  { w.B.Write(p) }
func (w *W) Bytes() []byte { return w.B.Bytes() }
func (w *W) Pos() int      { return w.B.Len() }

// LenForm: 0 canonical, 1 14-bit, 2 32-bit, 3 64-bit
func (w *W) LenForm(n uint64, form int) {
	switch {
	case form == 0 && n < 64:
		w.Byte(byte(n))
	case form <= 1 && n < 16384:
		w.Byte(0x40 | byte(n>>8))
		w.Byte(byte(n))
	case form <= 2 && n <= math.MaxUint32:
		w.Byte(0x80)
		var b [4]byte
		binary.BigEndian.PutUint32(b[:], uint32(n))
		w.Raw(b[:])
	default:
		w.Byte(0x81)
		var b [8]byte
		binary.BigEndian.PutUint64(b[:], n)
		w.Raw(b[:])
	}
}

// Len writes a length a parser must honour (never the 64-bit form for n < 2^32: Redis does not emit that).
func (w *W) Len(n uint64) {
	form := 0
	if w.WideLens > 0 && w.Rng.Chance(w.WideLens, 16) {
		form = w.Rng.Range(1, 2)
	}
	w.LenForm(n, form)
}

// BigNum writes a number whose value parsers skip (stream ids, module ids): may use the 64-bit form.
func (w *W) BigNum(n uint64) {
	if n > math.MaxUint32 {
		w.LenForm(n, 3)
		return
	}
	w.Len(n)
}

// IsIntString reports whether s is the canonical decimal form of an int32 (what Redis int-encodes).
func IsIntString(s []byte) (int64, bool) {
	if len(s) == 0 || len(s) > 11 {
		return 0, false
	}
	n, err := strconv.ParseInt(string(s), 10, 64)
	if err != nil || strconv.FormatInt(n, 10) != string(s) {
		return 0, false
	}
	if n < math.MinInt32 || n > math.MaxInt32 {
		return 0, false
	}
	return n, true
}

// StrEnc: "raw" | "int" | "lzf" | "" (pick)
func (w *W) Str(s []byte, enc string) string {
	if enc == "" {
		enc = "raw"
		if _, ok := IsIntString(s); ok && w.Rng.Chance(3, 4) {
			enc = "int"
		} else if len(s) >= 4 && len(s) <= 9000 && (w.Rng.Chance(1, 5) || (len(s) >= 260 && w.Rng.Chance(1, 2))) {
			enc = "lzf"
		}
	}
	switch enc {
	case "int":
		n, ok := IsIntString(s)
		if !ok {
			return w.Str(s, "raw")
		}
		switch {
		case n >= -128 && n <= 127 && !w.Rng.Chance(1, 10):
			w.Byte(0xC0)
			w.Byte(byte(int8(n)))
		case n >= -32768 && n <= 32767 && !w.Rng.Chance(1, 10):
			w.Byte(0xC1)
			var b [2]byte
			binary.LittleEndian.PutUint16(b[:], uint16(int16(n)))
			w.Raw(b[:])
		default:
			w.Byte(0xC2)
			var b [4]byte
			binary.LittleEndian.PutUint32(b[:], uint32(int32(n)))
			w.Raw(b[:])
		}
		return "int"
	case "lzf":
		if len(s) == 0 {
			return w.Str(s, "raw")
		}
		c := LZFCompress(w.Rng, s)
		w.Byte(0xC3)
		w.Len(uint64(len(c)))
		w.Len(uint64(len(s)))
		w.Raw(c)
		return "lzf"
	}
	w.Len(uint64(len(s)))
	w.Raw(s)
	return "raw"
}

// ---- compact blobs

type zlEntry struct {
	S      []byte // logical string value
	AsInt  bool   // encode with an integer encoding when possible
	IntEnc int    // 0 auto; else force: 4 imm,8,16,24,32,64
	Big    int    // string header form: 0 auto, 1 force 14-bit, 2 force 32-bit
}

// Ziplist builds a ziplist blob; prevBig forces the 5-byte prevlen form with probability x/8.
func Ziplist(rng *prng.R, entries []zlEntry, prevBigChance int) []byte {
	var body bytes.Buffer
	prevLen := 0
	lastStart := 0
	for _, e := range entries {
		start := body.Len()
		lastStart = start
		if prevLen >= 254 || (prevBigChance > 0 && rng.Chance(prevBigChance, 8)) {
			body.WriteByte(0xFE)
			var b [4]byte
			binary.LittleEndian.PutUint32(b[:], uint32(prevLen))
			body.Write(b[:])
		} else {
			body.WriteByte(byte(prevLen))
		}
		n, isInt := int64(0), false
		if e.AsInt {
			v, err := strconv.ParseInt(string(e.S), 10, 64)
			if err == nil && strconv.FormatInt(v, 10) == string(e.S) {
				n, isInt = v, true
			}
		}
		if isInt {
			enc := e.IntEnc
			fits := func(enc int) bool {
				switch enc {
				case 4:
					return n >= 0 && n <= 12
				case 8:
					return n >= -128 && n <= 127
				case 16:
					return n >= -32768 && n <= 32767
				case 24:
					return n >= -8388608 && n <= 8388607
				case 32:
					return n >= math.MinInt32 && n <= math.MaxInt32
				}
				return true
			}
			if enc == 0 || !fits(enc) {
				for _, c := range []int{4, 8, 16, 24, 32, 64} {
					if fits(c) {
						enc = c
						break
					}
				}
			}
			switch enc {
			case 4:
				body.WriteByte(0xF1 + byte(n))
			case 8:
				body.WriteByte(0xFE)
				body.WriteByte(byte(int8(n)))
			case 16:
				body.WriteByte(0xC0)
				var b [2]byte
				binary.LittleEndian.PutUint16(b[:], uint16(int16(n)))
				body.Write(b[:])
			case 24:
				body.WriteByte(0xF0)
				u := uint32(int32(n))
				body.Write([]byte{byte(u), byte(u >> 8), byte(u >> 16)})
			case 32:
				body.WriteByte(0xD0)
				var b [4]byte
				binary.LittleEndian.PutUint32(b[:], uint32(int32(n)))
				body.Write(b[:])
			default:
				body.WriteByte(0xE0)
				var b [8]byte
				binary.LittleEndian.PutUint64(b[:], uint64(n))
				body.Write(b[:])
			}
		} else {
			l := len(e.S)
			switch {
			case l < 64 && e.Big == 0:
				body.WriteByte(byte(l))
			case l < 16384 && e.Big <= 1:
				body.WriteByte(0x40 | byte(l>>8))
				body.WriteByte(byte(l))
			default:
				body.WriteByte(0x80)
				var b [4]byte
				binary.BigEndian.PutUint32(b[:], uint32(l))
				body.Write(b[:])
			}
			body.Write(e.S)
		}
		prevLen = body.Len() - start
	}
	var out bytes.Buffer
	total := 10 + body.Len() + 1
	var h [10]byte
	binary.LittleEndian.PutUint32(h[0:], uint32(total))
	binary.LittleEndian.PutUint32(h[4:], uint32(10+lastStart))
	cnt := len(entries)
	if cnt > 65535 {
		cnt = 65535
	}
	binary.LittleEndian.PutUint16(h[8:], uint16(cnt))
	out.Write(h[:])
	out.Write(body.Bytes())
	out.WriteByte(0xFF)
	return out.Bytes()
}

func Intset(vals []int64, width int) []byte {
	var out bytes.Buffer
	var h [8]byte
	binary.LittleEndian.PutUint32(h[0:], uint32(width))
	binary.LittleEndian.PutUint32(h[4:], uint32(len(vals)))
	out.Write(h[:])
	for _, v := range vals {
		var b [8]byte
		binary.LittleEndian.PutUint64(b[:], uint64(v))
		out.Write(b[:width])
	}
	return out.Bytes()
}

// Zipmap builds a zipmap blob (Redis <= 2.4 small hashes). Item lengths stay below 253 (see DESIGN §5/C12).
func Zipmap(rng *prng.R, pairs [][2][]byte, countByte int) []byte {
	var out bytes.Buffer
	switch {
	case countByte >= 0:
		out.WriteByte(byte(countByte))
	case len(pairs) >= 254:
		out.WriteByte(254)
	default:
		out.WriteByte(byte(len(pairs)))
	}
	for _, p := range pairs {
		out.WriteByte(byte(len(p[0])))
		out.Write(p[0])
		out.WriteByte(byte(len(p[1])))
		free := 0
		if rng.Chance(1, 3) {
			free = rng.Range(1, 4)
		}
		out.WriteByte(byte(free))
		out.Write(p[1])
		out.Write(rng.Bytes(free))
	}
	out.WriteByte(0xFF)
	return out.Bytes()
}

func formatScoreText(f float64) []byte {
	// Redis writes "%.17g"; infinities print as inf / -inf
	switch {
	case math.IsInf(f, 1):
		return []byte("inf")
	case math.IsInf(f, -1):
		return []byte("-inf")
	case math.IsNaN(f):
		return []byte("nan")
	}
	return []byte(strconv.FormatFloat(f, 'g', 17, 64))
}

// ---- value serialisation. enc selects the physical encoding; returns (type byte, label).

// EncodeValue appends the serialized value (without type byte) to w and returns the RDB type.
func EncodeValue(w *W, v *Value, enc string) (byte, string) {
	rng := w.Rng
	switch v.Kind {
	case "string":
		return TString, "string/" + w.Str(v.Str, enc)
	case "list":
		switch enc {
		case "ziplist":
			w.Str(Ziplist(rng, zlEntries(rng, v.List), rng.Pick(0, 0, 1)), blobEnc(rng))
			return TListZip, "list/ziplist"
		case "quicklist":
			// split into 1..4 ziplists (possibly empty ones are not emitted by Redis; keep >=1 element each)
			parts := splitParts(rng, len(v.List))
			w.Len(uint64(len(parts)))
			at := 0
			for _, n := range parts {
				w.Str(Ziplist(rng, zlEntries(rng, v.List[at:at+n]), rng.Pick(0, 0, 1)), blobEnc(rng))
				at += n
			}
			return TQuicklist, fmt.Sprintf("list/quicklist%d", len(parts))
		}
		w.Len(uint64(len(v.List)))
		for _, e := range v.List {
			w.Str(e, "")
		}
		return TList, "list/linked"
	case "set":
		if enc == "intset" {
			vals := make([]int64, 0, len(v.List))
			width := 2
			for _, m := range v.List {
				n, _ := strconv.ParseInt(string(m), 10, 64)
				vals = append(vals, n)
				if n < math.MinInt16 || n > math.MaxInt16 {
					if width < 4 {
						width = 4
					}
				}
				if n < math.MinInt32 || n > math.MaxInt32 {
					width = 8
				}
			}
			w.Str(Intset(vals, width), blobEnc(rng))
			return TIntset, fmt.Sprintf("set/intset%d", width*8)
		}
		w.Len(uint64(len(v.List)))
		for _, e := range v.List {
			w.Str(e, "")
		}
		return TSet, "set/table"
	case "zset":
		switch enc {
		case "ziplist":
			var es []zlEntry
			for _, z := range v.ZSet {
				es = append(es, zlEntry{S: z.Member, AsInt: rng.Bool()})
				// score stored as string or integer entry; logical score is what the text parses to
				es = append(es, zlEntry{S: ziplistScoreText(z.Score), AsInt: true})
			}
			w.Str(Ziplist(rng, es, rng.Pick(0, 0, 1)), blobEnc(rng))
			return TZSetZip, "zset/ziplist"
		case "zset2":
			w.Len(uint64(len(v.ZSet)))
			for _, z := range v.ZSet {
				w.Str(z.Member, "")
				var b [8]byte
				binary.LittleEndian.PutUint64(b[:], math.Float64bits(z.Score))
				w.Raw(b[:])
			}
			return TZSet2, "zset/binary"
		}
		w.Len(uint64(len(v.ZSet)))
		for _, z := range v.ZSet {
			w.Str(z.Member, "")
			switch {
			case math.IsNaN(z.Score):
				w.Byte(253)
			case math.IsInf(z.Score, 1):
				w.Byte(254)
			case math.IsInf(z.Score, -1):
				w.Byte(255)
			default:
				t := formatScoreText(z.Score)
				w.Byte(byte(len(t)))
				w.Raw(t)
			}
		}
		return TZSet, "zset/text"
	case "hash":
		switch enc {
		case "zipmap":
			cb := -1
			if rng.Chance(1, 6) {
				cb = 254 // "count manually" marker although fewer than 254 items
			}
			w.Str(Zipmap(rng, v.Hash, cb), blobEnc(rng))
			return TZipmap, "hash/zipmap"
		case "ziplist":
			var es []zlEntry
			for _, p := range v.Hash {
				es = append(es, zlEntry{S: p[0], AsInt: rng.Bool()}, zlEntry{S: p[1], AsInt: rng.Bool()})
			}
			w.Str(Ziplist(rng, es, rng.Pick(0, 0, 1)), blobEnc(rng))
			return THashZip, "hash/ziplist"
		}
		w.Len(uint64(len(v.Hash)))
		for _, p := range v.Hash {
			w.Str(p[0], "")
			w.Str(p[1], "")
		}
		return THash, "hash/table"
	case "stream":
		w.Raw(v.Raw)
		return TStream, "stream"
	}
	panic("rdbgen: unknown kind " + v.Kind)
}

func blobEnc(rng *prng.R) string {
	if rng.Chance(1, 4) {
		return "lzf"
	}
	return "raw"
}

func ziplistScoreText(f float64) []byte {
	if f == math.Trunc(f) && math.Abs(f) < 1e15 && !(f == 0 && math.Signbit(f)) {
		return []byte(strconv.FormatInt(int64(f), 10))
	}
	return formatScoreText(f)
}

func zlEntries(rng *prng.R, items [][]byte) []zlEntry {
	es := make([]zlEntry, 0, len(items))
	for _, it := range items {
		e := zlEntry{S: it, AsInt: !rng.Chance(1, 8)}
		if rng.Chance(1, 5) {
			e.IntEnc = rng.Pick(8, 16, 24, 32, 64)
		}
		if rng.Chance(1, 10) {
			e.Big = rng.Range(1, 2)
		}
		es = append(es, e)
	}
	return es
}

func splitParts(rng *prng.R, n int) []int {
	if n == 0 {
		return []int{0}
	}
	k := rng.Range(1, 4)
	if k > n {
		k = n
	}
	parts := make([]int, k)
	for i := range parts {
		parts[i] = 1
	}
	for left := n - k; left > 0; left-- {
		parts[rng.Intn(k)]++
	}
	return parts
}

// StreamRaw builds an (opaque, length-exact) serialized stream value with consumer groups, PEL and consumers.
func StreamRaw(rng *prng.R) []byte {
	w := &W{Rng: rng, WideLens: 2}
	nlp := rng.Range(0, 3)
	w.Len(uint64(nlp))
	for i := 0; i < nlp; i++ {
		w.Str(rng.Bytes(16), "raw")                       // master id
		w.Str(rng.Bytes(rng.Range(7, 120)), blobEnc(rng)) // listpack blob
	}
	w.Len(uint64(rng.Intn(1000)))            // items
	w.BigNum(1500000000000 + rng.U64()%1e12) // last id ms  (> 2^32: 64-bit form)
	w.BigNum(uint64(rng.Intn(5)))            // last id seq
	ng := rng.Range(0, 2)
	w.Len(uint64(ng))
	for g := 0; g < ng; g++ {
		w.Str(rng.Alpha(rng.Range(1, 8), "grp0123"), "raw")
		w.BigNum(1500000000000 + rng.U64()%1e12)
		w.BigNum(uint64(rng.Intn(9)))
		np := rng.Range(0, 3)
		w.Len(uint64(np))
		for p := 0; p < np; p++ {
			w.Raw(rng.Bytes(16))
			w.Raw(rng.Bytes(8))
			w.Len(uint64(rng.Range(1, 70)))
		}
		nc := rng.Range(0, 2)
		w.Len(uint64(nc))
		for c := 0; c < nc; c++ {
			w.Str(rng.Alpha(rng.Range(1, 8), "consumer"), "raw")
			w.Raw(rng.Bytes(8))
			np2 := rng.Range(0, 2)
			w.Len(uint64(np2))
			for p := 0; p < np2; p++ {
				w.Raw(rng.Bytes(16))
			}
		}
	}
	return w.Bytes()
}

// DumpPayload wraps a serialized value as a DUMP payload: type ‖ value ‖ le16(version) ‖ crc64.
func DumpPayload(t byte, valueBytes []byte, version uint16) []byte {
	b := make([]byte, 0, len(valueBytes)+11)
	b = append(b, t)
	b = append(b, valueBytes...)
	b = append(b, byte(version), byte(version>>8))
	crc := refcrc.CRC64(0, b)
	var c [8]byte
	binary.LittleEndian.PutUint64(c[:], crc)
	return append(b, c[:]...)
}

// ---- whole files

type KeySpec struct {
	DB       uint32
	Key      []byte
	Val      *Value
	Enc      string // physical encoding selector ("" = default for kind)
	ExpireMs uint64 // absolute, 0 none
	ExpireS  bool   // write with the seconds opcode (value must be a multiple of 1000)
	Idle     uint32
	HasIdle  bool
	Freq     uint8
	HasFreq  bool
}

type Meta struct { // metadata item placed before a key
	Kind string // aux resize modaux lua selectdb
	A, B []byte
	N, M uint64
	Mod  []ModItem
}

type ModItem struct {
	Op  int // 1 sint 2 uint 3 float 4 double 5 string
	U   uint64
	F32 float32
	F64 float64
	S   []byte
}

type Item struct {
	Meta *Meta
	Key  *KeySpec
}

type File struct {
	Version int
	Items   []Item
}

// Build serialises the file; returns bytes and the expected records in order.
func Build(rng *prng.R, f *File, wideLens int) ([]byte, []Record) {
	w := &W{Rng: rng, WideLens: wideLens}
	w.Raw([]byte(fmt.Sprintf("REDIS%04d", f.Version)))
	var recs []Record
	curDB := uint32(0)
	for _, it := range f.Items {
		if m := it.Meta; m != nil {
			switch m.Kind {
			case "aux":
				w.Byte(0xFA)
				w.Str(m.A, "")
				w.Str(m.B, "")
			case "lua":
				w.Byte(0xFA)
				w.Str([]byte("lua"), "raw")
				w.Str(m.B, "")
				recs = append(recs, Record{DB: curDB, Key: []byte("lua"), Type: 0xFA, IsScript: true, Script: m.B})
			case "resize":
				w.Byte(0xFB)
				w.Len(m.N)
				w.Len(m.M)
			case "selectdb":
				w.Byte(0xFE)
				w.Len(m.N)
				curDB = uint32(m.N)
			case "modaux":
				w.Byte(0xF7)
				w.BigNum(m.N) // module id (64 bit)
				for _, mi := range m.Mod {
					w.Len(uint64(mi.Op))
					switch mi.Op {
					case 1, 2:
						w.BigNum(mi.U)
					case 3:
						var b [4]byte
						binary.LittleEndian.PutUint32(b[:], math.Float32bits(mi.F32))
						w.Raw(b[:])
					case 4:
						var b [8]byte
						binary.LittleEndian.PutUint64(b[:], math.Float64bits(mi.F64))
						w.Raw(b[:])
					case 5:
						w.Str(mi.S, "")
					}
				}
				w.Len(0) // EOF
			}
			continue
		}
		k := it.Key
		if k.DB != curDB {
			w.Byte(0xFE)
			w.Len(uint64(k.DB))
			curDB = k.DB
		}
		rec := Record{DB: k.DB, Key: k.Key, Logical: k.Val}
		if k.ExpireMs != 0 {
			if k.ExpireS && k.ExpireMs%1000 == 0 && k.ExpireMs/1000 <= math.MaxUint32 {
				w.Byte(0xFD)
				var b [4]byte
				binary.LittleEndian.PutUint32(b[:], uint32(k.ExpireMs/1000))
				w.Raw(b[:])
			} else {
				w.Byte(0xFC)
				var b [8]byte
				binary.LittleEndian.PutUint64(b[:], k.ExpireMs)
				w.Raw(b[:])
			}
			rec.ExpireAt = k.ExpireMs
		}
		if k.HasIdle {
			w.Byte(0xF8)
			w.Len(uint64(k.Idle))
			rec.Idle = k.Idle
		}
		if k.HasFreq {
			w.Byte(0xF9)
			w.Byte(k.Freq)
			rec.Freq = k.Freq
		}
		// type byte is only known after encoding: encode into a side buffer
		side := &W{Rng: rng, WideLens: wideLens}
		t, label := EncodeValue(side, k.Val, k.Enc)
		w.Byte(t)
		w.Str(k.Key, "")
		w.Raw(side.Bytes())
		rec.Type = t
		rec.ValueBytes = side.Bytes()
		rec.Encoding = label
		recs = append(recs, rec)
	}
	w.Byte(0xFF)
	crc := refcrc.CRC64(0, w.Bytes())
	var c [8]byte
	binary.LittleEndian.PutUint64(c[:], crc)
	w.Raw(c[:])
	return w.Bytes(), recs
}
