// Package wk is the worker-side framework: property registry, argument parsing, child processes.
package wk

import (
	"bufio"
	"bytes"
	"encoding/json"
	"fmt"
	"io/ioutil"
	"os"
	"os/exec"
	"path/filepath"
	"runtime/pprof"
	"strconv"
	"strings"
	"sync"
	"syscall"
	"time"

	"verif/harness/lib/prng"
	"verif/harness/lib/res"
)

type Ctx struct {
	Prop    string
	Tier    string // quick | thorough
	Seed    uint64
	Scratch string // private scratch dir (exists)
	Replay  string // path of a replay file or ""
	R       *res.R
	Rng     *prng.R
	Start   time.Time
}

func (c *Ctx) Thorough() bool { return c.Tier == "thorough" }

// N picks a tier-dependent count.
func (c *Ctx) N(quick, thorough int) int {
	if c.Thorough() {
		return thorough
	}
	return quick
}

type PropFunc func(c *Ctx)
type ChildFunc func(arg json.RawMessage, scratch string) // prints result JSON lines on stdout

var props = map[string]PropFunc{}
var children = map[string]ChildFunc{}

func Register(id string, f PropFunc)         { props[id] = f }
func RegisterChild(name string, f ChildFunc) { children[name] = f }

// Main is the worker entry point.
//
//	worker <PROP> --tier T --seed S --out result.json --scratch DIR [--replay file]
//	worker child <name> <argfile> <scratch>
func Main() {
	args := os.Args[1:]
	if len(args) >= 4 && args[0] == "child" {
		f, ok := children[args[1]]
		if !ok {
			fmt.Fprintf(os.Stderr, "unknown child %s\n", args[1])
			os.Exit(3)
		}
		b, err := ioutil.ReadFile(args[2])
		if err != nil {
			fmt.Fprintln(os.Stderr, err)
			os.Exit(3)
		}
		if pf := os.Getenv("VERIF_PPROF"); pf != "" {
			if w, err := os.Create(pf); err == nil {
				pprof.StartCPUProfile(w)
				defer pprof.StopCPUProfile()
			}
		}
		f(json.RawMessage(b), args[3])
		pprof.StopCPUProfile()
		os.Exit(0)
	}
	if len(args) < 1 {
		fmt.Fprintln(os.Stderr, "usage: worker PROP --tier T --seed S --out F --scratch D")
		os.Exit(3)
	}
	c := &Ctx{Prop: args[0], Tier: "quick", Seed: 1, Start: time.Now()}
	out := ""
	deadline := 0
	for i := 1; i+1 < len(args); i += 2 {
		switch args[i] {
		case "--tier":
			c.Tier = args[i+1]
		case "--seed":
			v, _ := strconv.ParseUint(args[i+1], 10, 64)
			c.Seed = v
		case "--out":
			out = args[i+1]
		case "--scratch":
			c.Scratch = args[i+1]
		case "--replay":
			c.Replay = args[i+1]
		case "--deadline":
			deadline, _ = strconv.Atoi(args[i+1])
		}
	}
	f, ok := props[c.Prop]
	if !ok {
		fmt.Fprintf(os.Stderr, "property %s not served by this worker\n", c.Prop)
		os.Exit(3)
	}
	if c.Scratch == "" {
		d, _ := ioutil.TempDir("", "vw")
		c.Scratch = d
	}
	os.MkdirAll(c.Scratch, 0755)
	c.R = res.New(c.Prop)
	c.Rng = prng.New(c.Seed).Split(hashStr(c.Prop))
	if out == "" {
		out = filepath.Join(c.Scratch, "result.json")
	}
	if deadline > 0 {
		// the driver's wall-clock budget: what was observed so far (violations are streamed by the children) is
		// written out and the rest is reported as undecided, instead of losing everything to the driver's kill
		go func() {
			time.Sleep(time.Duration(deadline) * time.Second)
			c.R.Inconcl(fmt.Sprintf("the run reached the driver's wall-clock budget (%d s) before all cases were executed", deadline))
			c.R.Write(out)
			os.Exit(0)
		}()
	}
	f(c)
	if err := c.R.Write(out); err != nil {
		fmt.Fprintln(os.Stderr, "write result:", err)
		os.Exit(3)
	}
}

func hashStr(s string) uint64 {
	var h uint64 = 1469598103934665603
	for i := 0; i < len(s); i++ {
		h ^= uint64(s[i])
		h *= 1099511628211
	}
	return h
}

type ChildResult struct {
	Exit     int // exit code, -1 if killed by watchdog
	TimedOut bool
	Stdout   []byte
	Stderr   []byte // includes goroutine dump after SIGQUIT
	Wall     time.Duration
}

var childSeq struct {
	sync.Mutex
	n int
}

// RunChild re-executes this binary as `child name` with arg marshalled to a file. env adds variables.
func RunChild(c *Ctx, name string, arg interface{}, timeout time.Duration, env ...string) ChildResult {
	return RunChildLines(c, name, arg, timeout, nil, env...)
}

// RunChildLines is RunChild with the child's stdout handed to onLine line by line instead of being kept
// (a long batch prints a line per case and periodic snapshots: hundreds of megabytes).
func RunChildLines(c *Ctx, name string, arg interface{}, timeout time.Duration, onLine func(line []byte), env ...string) ChildResult {
	childSeq.Lock()
	childSeq.n++
	n := childSeq.n
	childSeq.Unlock()
	dir := filepath.Join(c.Scratch, fmt.Sprintf("child%d", n))
	os.MkdirAll(dir, 0755)
	argf := filepath.Join(dir, "arg.json")
	b, _ := json.Marshal(arg)
	ioutil.WriteFile(argf, b, 0644)
	bin := os.Args[0]
	if nb := os.Getenv("VERIF_NORACE_BIN"); nb != "" && strings.HasSuffix(name, "long") {
		bin = nb // bulk stages run in the uninstrumented twin of this worker
	}
	cmd := exec.Command(bin, "child", name, argf, dir)
	cmd.Env = append(os.Environ(), env...)
	var so, se bytes.Buffer
	cmd.Stderr = &se
	readDone := make(chan struct{})
	if onLine == nil {
		cmd.Stdout = &so
		close(readDone)
	} else {
		pr, err := cmd.StdoutPipe()
		if err != nil {
			return ChildResult{Exit: -2, Stderr: []byte(err.Error())}
		}
		go func() {
			defer close(readDone)
			br := bufio.NewReaderSize(pr, 1<<20)
			for {
				line, err := br.ReadBytes('\n')
				if len(line) > 0 {
					onLine(bytes.TrimRight(line, "\n"))
				}
				if err != nil {
					return
				}
			}
		}()
	}
	t0 := time.Now()
	r := ChildResult{}
	if err := cmd.Start(); err != nil {
		r.Exit = -2
		r.Stderr = []byte(err.Error())
		return r
	}
	done := make(chan error, 1)
	go func() { <-readDone; done <- cmd.Wait() }()
	select {
	case err := <-done:
		r.Exit = exitCode(err)
	case <-time.After(timeout):
		r.TimedOut = true
		cmd.Process.Signal(syscall.SIGQUIT)
		select {
		case <-done:
		case <-time.After(5 * time.Second):
			cmd.Process.Kill()
			<-done
		}
		r.Exit = -1
	}
	r.Wall = time.Since(t0)
	r.Stdout = so.Bytes()
	r.Stderr = se.Bytes()
	os.RemoveAll(dir)
	return r
}

func exitCode(err error) int {
	if err == nil {
		return 0
	}
	if ee, ok := err.(*exec.ExitError); ok {
		if ws, ok := ee.Sys().(syscall.WaitStatus); ok {
			if ws.Signaled() {
				return 128 + int(ws.Signal())
			}
			return ws.ExitStatus()
		}
	}
	return -2
}

// Parallel runs f(i) for i in [0,n) on up to w goroutines.
func Parallel(n, w int, f func(i int)) {
	if w < 1 {
		w = 1
	}
	var wg sync.WaitGroup
	ch := make(chan int)
	for k := 0; k < w; k++ {
		wg.Add(1)
		go func() {
			defer wg.Done()
			for i := range ch {
				f(i)
			}
		}()
	}
	for i := 0; i < n; i++ {
		ch <- i
	}
	close(ch)
	wg.Wait()
}

// Tail returns the last n bytes of b as a string.
func Tail(b []byte, n int) string {
	if len(b) > n {
		b = b[len(b)-n:]
	}
	return string(b)
}

// ---- batches of cases run in child processes that may die (log.Panic* is os.Exit(1) in the repo)

// ChildCase is printed by a child before it executes case idx, so the parent knows the culprit of a death.
func ChildCase(idx int, desc interface{}) {
	outMu.Lock()
	defer outMu.Unlock()
	// every so often publish a snapshot of what was observed so far: a later death must not lose it
	childCases++
	if curChildRes != nil && childCases >= nextSnap {
		os.Stdout.Write([]byte("@SNAP "))
		curChildRes.WriteChild("-")
		if nextSnap < 200 {
			nextSnap += 20
		} else {
			nextSnap += nextSnap / 4 // a snapshot carries everything seen so far: keep their number logarithmic
		}
	}
	b, _ := json.Marshal(desc)
	os.Stdout.Write([]byte(fmt.Sprintf("@CASE %d %s\n", idx, b)))
}

var curChildRes *res.R

// outMu serialises the protocol lines a child prints (cases may run on several goroutines)
var outMu sync.Mutex
var childCases int
var nextSnap = 20

// ChildDone prints the child's mergeable result.
// ChildResult returns a result collector for a child that streams violations as they happen.
func ChildRes(prop string) *res.R {
	r := res.New(prop)
	curChildRes = r
	r.OnViolation = func(v res.Violation) {
		b, _ := json.Marshal(v)
		outMu.Lock()
		os.Stdout.Write(append(append([]byte("@V "), b...), '\n'))
		outMu.Unlock()
	}
	return r
}

func ChildDone(r *res.R) {
	outMu.Lock()
	defer outMu.Unlock()
	os.Stdout.Write([]byte("@RESULT "))
	r.WriteChild("-")
}

type BatchArg struct {
	Seed  uint64          `json:"seed"`
	Tier  string          `json:"tier"`
	Start int             `json:"start"`
	End   int             `json:"end"`
	Extra json.RawMessage `json:"extra,omitempty"`
}

type Death struct {
	Idx    int
	Desc   json.RawMessage
	Result ChildResult
}

// RunBatch runs cases [start,end) of child `name`, restarting after each death. onDeath decides what a
// death means (violation / expected / inconclusive). Returns number of deaths.
func RunBatch(c *Ctx, name string, start, end int, extra interface{}, timeout time.Duration, onDeath func(d Death), env ...string) int {
	deaths := 0
	first := start
	eb, _ := json.Marshal(extra)
	for start < end {
		arg := BatchArg{Seed: c.Seed, Tier: c.Tier, Start: start, End: end, Extra: eb}
		lastIdx := -1
		var lastDesc json.RawMessage
		gotResult := false
		yieldAt := -1
		var streamed []res.Violation
		var lastSnap []byte
		snapIdx := start - 1
		cr := RunChildLines(c, name, arg, timeout, func(line []byte) {
			if bytes.HasPrefix(line, []byte("@V ")) {
				var v res.Violation
				if json.Unmarshal(line[3:], &v) == nil {
					streamed = append(streamed, v)
				}
				return
			}
			if bytes.HasPrefix(line, []byte("@SNAP ")) {
				lastSnap = append(lastSnap[:0], line[6:]...)
				streamed = streamed[:0] // violations so far are inside the snapshot
				snapIdx = lastIdx
				return
			}
			if bytes.HasPrefix(line, []byte("@YIELD ")) {
				yieldAt, _ = strconv.Atoi(string(bytes.TrimSpace(line[7:])))
				return
			}
			if bytes.HasPrefix(line, []byte("@CASE ")) {
				rest := line[6:]
				sp := bytes.IndexByte(rest, ' ')
				if sp > 0 {
					lastIdx, _ = strconv.Atoi(string(rest[:sp]))
					lastDesc = append(lastDesc[:0], rest[sp+1:]...)
				}
			} else if bytes.HasPrefix(line, []byte("@RESULT ")) {
				if err := c.R.MergeBytes(line[8:]); err == nil {
					gotResult = true
				}
			}
		}, env...)
		if gotResult && cr.Exit == 0 {
			if yieldAt >= 0 && yieldAt < end {
				start = yieldAt // the child asked to be restarted (housekeeping), not a death
				continue
			}
			return deaths
		}
		deaths++
		if !gotResult {
			if lastSnap != nil {
				c.R.MergeBytesNoEval(lastSnap)
			}
			for _, v := range streamed {
				c.R.Violation(v.Sig, v.What, v.Replay)
			}
		}
		_ = snapIdx
		if lastIdx < start {
			// died before the first case: nothing to blame, give up on this batch
			c.R.Inconcl(fmt.Sprintf("child %s died before its first case (exit %d, timeout=%v): %s", name, cr.Exit, cr.TimedOut, Tail(cr.Stderr, 400)))
			return deaths
		}
		c.R.Cases(int64(lastIdx - start))
		c.R.Sample(map[string]interface{}{"case_running_when_the_child_process_ended": lastDesc})
		if cr.Exit == 128+9 && !cr.TimedOut {
			// SIGKILL comes from outside the process (the kernel's OOM killer, an operator): not behaviour of the code under test
			c.R.Inconcl(fmt.Sprintf("child %s was killed by SIGKILL (out of memory?) while running case %d", name, lastIdx))
		} else {
			onDeath(Death{Idx: lastIdx, Desc: lastDesc, Result: cr})
		}
		start = lastIdx + 1
		if deaths > 50 && deaths > (end-first)/2 {
			c.R.Inconcl("child " + name + " died more than 50 times and in more than half of its cases; batch abandoned")
			return deaths
		}
	}
	return deaths
}

// ChildYield ends the child voluntarily after case idx-1; the parent restarts it at idx.
func ChildYield(r *res.R, idx int) {
	ChildDone(r)
	os.Stdout.Write([]byte(fmt.Sprintf("@YIELD %d\n", idx)))
	os.Exit(0)
}

// ParseBatchArg is the child-side helper.
func ParseBatchArg(raw json.RawMessage, extra interface{}) BatchArg {
	var a BatchArg
	json.Unmarshal(raw, &a)
	if extra != nil && len(a.Extra) > 0 {
		json.Unmarshal(a.Extra, extra)
	}
	return a
}

// ReplayIndex reads a replay file written by the driver and returns the index of the logged case.
func ReplayIndex(path string) (idx int, raw json.RawMessage, ok bool) {
	b, err := ioutil.ReadFile(path)
	if err != nil {
		return 0, nil, false
	}
	var f struct {
		Case json.RawMessage `json:"case"`
	}
	if json.Unmarshal(b, &f) != nil || len(f.Case) == 0 {
		return 0, nil, false
	}
	var c struct {
		Index *int            `json:"index"`
		Case  json.RawMessage `json:"case"`
		State json.RawMessage `json:"state"`
	}
	if json.Unmarshal(f.Case, &c) != nil {
		return 0, f.Case, false
	}
	if c.Index != nil {
		return *c.Index, f.Case, true
	}
	for _, inner := range []json.RawMessage{c.Case, c.State} {
		var d struct {
			Index *int `json:"index"`
		}
		if len(inner) > 0 && json.Unmarshal(inner, &d) == nil && d.Index != nil {
			return *d.Index, f.Case, true
		}
	}
	return 0, f.Case, false
}

// ReplayOne re-runs the single logged case of a replay file through the property's child (same seed => same case).
func ReplayOne(c *Ctx, child string, extra func(idx int) interface{}, onDeath func(d Death)) bool {
	if c.Replay == "" {
		return false
	}
	idx, _, ok := ReplayIndex(c.Replay)
	if !ok {
		c.R.Inconcl("replay file carries no case index; it is self-describing (case, expectation, observation) and cannot be re-run mechanically")
		return true
	}
	var ex interface{}
	if extra != nil {
		ex = extra(idx)
	}
	c.R.Rule = "replay of one logged case (index " + strconv.Itoa(idx) + ")"
	RunBatch(c, child, idx, idx+1, ex, 20*time.Minute, onDeath)
	return true
}
