// Package res collects what a worker observed: cases, distinct signatures, violations,
// inconclusive cases, counters and samples; the driver turns it into evidence + verdict lines.
package res

import (
	"crypto/sha1"
	"encoding/hex"
	"encoding/json"
	"fmt"
	"io/ioutil"
	"os"
	"sort"
	"sync"
)

type Violation struct {
	Sig    string      `json:"sig"`
	What   string      `json:"what"`
	Replay interface{} `json:"replay,omitempty"`
}

type R struct {
	mu           sync.Mutex
	Property     string `json:"property"`
	Evaluations  int64  `json:"evaluations"`
	distinct     map[string]struct{}
	Distinct     int64            `json:"distinct_nontrivial"`
	Rule         string           `json:"rule"`
	Samples      []interface{}    `json:"samples"`
	Counters     map[string]int64 `json:"counters"`
	Violations   []Violation      `json:"violations"`
	violSeen     map[string]int
	Inconclusive []string         `json:"inconclusive"`
	Assumptions  []string         `json:"assumptions"`
	Exhaustive   bool             `json:"exhaustive"`
	Notes        []string         `json:"notes"`
	MaxSamples   int              `json:"-"`
	OnViolation  func(Violation)  `json:"-"` // children stream violations so that a later death does not lose them
	Floors       map[string]int64 `json:"floors"`
}

func New(prop string) *R {
	return &R{Property: prop, distinct: map[string]struct{}{}, Counters: map[string]int64{}, violSeen: map[string]int{},
		MaxSamples: 6, Floors: map[string]int64{}}
}

// Case records one executed case; sig identifies its observed non-trivial class ("" = trivial).
func (r *R) Case(sig string) {
	r.mu.Lock()
	r.Evaluations++
	if sig != "" {
		h := sha1.Sum([]byte(sig))
		r.distinct[string(h[:8])] = struct{}{}
	}
	r.mu.Unlock()
}

// Cases records n executed cases that share a signature-less bulk class.
func (r *R) Cases(n int64) {
	r.mu.Lock()
	r.Evaluations += n
	r.mu.Unlock()
}

func (r *R) Distinguish(sig string) {
	r.mu.Lock()
	h := sha1.Sum([]byte(sig))
	r.distinct[string(h[:8])] = struct{}{}
	r.mu.Unlock()
}

func (r *R) Count(name string, n int64) {
	r.mu.Lock()
	r.Counters[name] += n
	r.mu.Unlock()
}

func (r *R) Max(name string, n int64) {
	r.mu.Lock()
	if r.Counters[name] < n {
		r.Counters[name] = n
	}
	r.mu.Unlock()
}

// Floor declares that counter name must reach at least n, else the run is "observed too little".
func (r *R) Floor(name string, n int64) {
	r.mu.Lock()
	r.Floors[name] = n
	r.mu.Unlock()
}

func (r *R) Sample(v interface{}) {
	r.mu.Lock()
	if len(r.Samples) < r.MaxSamples {
		r.Samples = append(r.Samples, v)
	}
	r.mu.Unlock()
}

// Violation records a violation; at most 3 witnesses per signature are kept.
func (r *R) Violation(sig, what string, replay interface{}) {
	r.mu.Lock()
	r.violSeen[sig]++
	r.Counters["violations_total"]++
	if r.violSeen[sig] > 2 {
		r.mu.Unlock()
		return
	}
	v := Violation{Sig: sig, What: what, Replay: replay}
	r.Violations = append(r.Violations, v)
	cb := r.OnViolation
	r.mu.Unlock()
	if cb != nil {
		cb(v) // outside the lock: the callback prints under the output lock, which snapshot writers take first
	}
}

func (r *R) Violationf(sig string, replay interface{}, format string, a ...interface{}) {
	r.Violation(sig, fmt.Sprintf(format, a...), replay)
}

func (r *R) Inconcl(what string) {
	r.mu.Lock()
	r.Counters["inconclusive"]++
	if len(r.Inconclusive) < 20 {
		r.Inconclusive = append(r.Inconclusive, what)
	}
	r.mu.Unlock()
}

func (r *R) Assume(s string) { r.mu.Lock(); r.Assumptions = append(r.Assumptions, s); r.mu.Unlock() }
func (r *R) Note(s string)   { r.mu.Lock(); r.Notes = append(r.Notes, s); r.mu.Unlock() }

func (r *R) NViolations() int { r.mu.Lock(); defer r.mu.Unlock(); return len(r.Violations) }

func (r *R) Write(path string) error {
	r.mu.Lock()
	r.Distinct = int64(len(r.distinct))
	sort.SliceStable(r.Violations, func(i, j int) bool { return r.Violations[i].Sig < r.Violations[j].Sig })
	b, err := json.MarshalIndent(r, "", " ")
	r.mu.Unlock()
	if err != nil {
		return err
	}
	return ioutil.WriteFile(path, b, 0644)
}

// Merge folds a child's result file into r.
func (r *R) Merge(path string) error {
	b, err := ioutil.ReadFile(path)
	if err != nil {
		return err
	}
	return r.MergeBytes(b)
}

type wire struct {
	Evaluations  int64            `json:"evaluations"`
	DistinctKeys []string         `json:"distinct_keys"`
	Samples      []interface{}    `json:"samples"`
	Counters     map[string]int64 `json:"counters"`
	Violations   []Violation      `json:"violations"`
	Inconclusive []string         `json:"inconclusive"`
	Notes        []string         `json:"notes"`
}

// WriteChild writes the mergeable form (keeps the distinct-signature hashes).
func (r *R) WriteChild(path string) error {
	r.mu.Lock()
	w := wire{Evaluations: r.Evaluations, Samples: r.Samples, Counters: r.Counters, Violations: r.Violations,
		Inconclusive: r.Inconclusive, Notes: r.Notes}
	for k := range r.distinct {
		w.DistinctKeys = append(w.DistinctKeys, hex.EncodeToString([]byte(k)))
	}
	b, err := json.Marshal(w)
	r.mu.Unlock()
	if err != nil {
		return err
	}
	if path == "-" {
		_, err = os.Stdout.Write(append(b, '\n'))
		return err
	}
	return ioutil.WriteFile(path, b, 0644)
}

// MergeBytesNoEval merges a snapshot of a child that died later: evaluations are accounted for by the caller.
func (r *R) MergeBytesNoEval(b []byte) error {
	r.mu.Lock()
	before := r.Evaluations
	r.mu.Unlock()
	err := r.MergeBytes(b)
	r.mu.Lock()
	r.Evaluations = before
	r.mu.Unlock()
	return err
}

func (r *R) MergeBytes(b []byte) error {
	var w wire
	if err := json.Unmarshal(b, &w); err != nil {
		return err
	}
	r.mu.Lock()
	defer r.mu.Unlock()
	r.Evaluations += w.Evaluations
	for _, k := range w.DistinctKeys {
		kb, _ := hex.DecodeString(k)
		r.distinct[string(kb)] = struct{}{}
	}
	for _, s := range w.Samples {
		if len(r.Samples) < r.MaxSamples {
			r.Samples = append(r.Samples, s)
		}
	}
	for k, v := range w.Counters {
		if len(k) > 4 && k[:4] == "max_" {
			if r.Counters[k] < v {
				r.Counters[k] = v
			}
		} else {
			r.Counters[k] += v
		}
	}
	for _, v := range w.Violations {
		r.violSeen[v.Sig]++
		if r.violSeen[v.Sig] <= 2 {
			r.Violations = append(r.Violations, v)
		}
	}
	for _, s := range w.Inconclusive {
		if len(r.Inconclusive) < 20 {
			r.Inconclusive = append(r.Inconclusive, s)
		}
	}
	r.Notes = append(r.Notes, w.Notes...)
	return nil
}
