// Package prng is a small splittable deterministic PRNG (splitmix64) so that every case list is a
// pure function of VERIF_SEED and the tier.
package prng

type R struct{ s uint64 }

func New(seed uint64) *R { return &R{s: seed*0x9E3779B97F4A7C15 + 0x1234567} }

func (r *R) U64() uint64 {
	r.s += 0x9E3779B97F4A7C15
	z := r.s
	z = (z ^ (z >> 30)) * 0xBF58476D1CE4E5B9
	z = (z ^ (z >> 27)) * 0x94D049BB133111EB
	return z ^ (z >> 31)
}

// Split derives an independent stream labelled by k.
func (r *R) Split(k uint64) *R { return New(r.U64() ^ (k * 0xD6E8FEB86659FD93)) }

// At derives an independent stream labelled by k WITHOUT advancing r (pure: same k, same stream).
func (r *R) At(k uint64) *R { return New(r.s ^ ((k + 1) * 0xD6E8FEB86659FD93)) }

func (r *R) State() uint64 { return r.s }

func (r *R) Intn(n int) int {
	if n <= 0 {
		return 0
	}
	return int(r.U64() % uint64(n))
}

// Range returns a value in [lo,hi].
func (r *R) Range(lo, hi int) int { return lo + r.Intn(hi-lo+1) }

func (r *R) Bool() bool { return r.U64()&1 == 1 }

// Chance returns true with probability num/den.
func (r *R) Chance(num, den int) bool { return r.Intn(den) < num }

func (r *R) Bytes(n int) []byte {
	b := make([]byte, n)
	for i := 0; i < n; i += 8 {
		v := r.U64()
		for j := 0; j < 8 && i+j < n; j++ {
			b[i+j] = byte(v >> (8 * uint(j)))
		}
	}
	return b
}

// Pick returns one of the ints.
func (r *R) Pick(xs ...int) int { return xs[r.Intn(len(xs))] }

func (r *R) PickS(xs ...string) string { return xs[r.Intn(len(xs))] }

// Alpha returns n bytes from the given alphabet.
func (r *R) Alpha(n int, alphabet string) []byte {
	b := make([]byte, n)
	for i := range b {
		b[i] = alphabet[r.Intn(len(alphabet))]
	}
	return b
}

func (r *R) Perm(n int) []int {
	p := make([]int, n)
	for i := range p {
		p[i] = i
	}
	for i := n - 1; i > 0; i-- {
		j := r.Intn(i + 1)
		p[i], p[j] = p[j], p[i]
	}
	return p
}
