// wpkg: worker for the properties living in pkg/... only (no overlay, no hooks needed).
package main

import (
	"verif/harness/lib/wk"
	_ "verif/harness/props/ppkg"
)

func main() { wk.Main() }
