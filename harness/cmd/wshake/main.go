// wshake: worker for the properties living in redis-shake/... (needs the overlay and the verif hooks).
package main

import (
	"verif/harness/lib/wk"
	_ "verif/harness/props/pshake"
)

func main() { wk.Main() }
